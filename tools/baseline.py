#!/usr/bin/env python
"""Run the repository's pinned test suite (guard OFF: no hooks exist) and compare
with /root/.vp/BASELINE.json's stable_pass list.  Exit 0 iff every stable-pass test
still passes."""
import json
import os
import subprocess
import sys
import tempfile
import xml.etree.ElementTree as ET

BASE = "/root/.vp/BASELINE.json"
repo = os.environ.get("PROVSIM_REPO", "/repo")


def main():
    out = tempfile.mkdtemp(prefix="baseline-")
    junit = os.path.join(out, "junit.xml")
    env = dict(os.environ)
    env.pop("PROV_VERIF", None)
    cmd = ["/venv/bin/python", "-m", "pytest", "-q", "-p", "no:cacheprovider", "--timeout=900",
           "--continue-on-collection-errors", "--junitxml=" + junit, "-x" if False else "-q",
           "-n", os.environ.get("BASELINE_JOBS", "0")]
    # pytest-xdist may be absent: drop -n if so
    probe = subprocess.run(["/venv/bin/python", "-c", "import xdist"], capture_output=True)
    if probe.returncode != 0:
        cmd = cmd[:-2]
    p = subprocess.run(cmd, cwd=repo, env=env, stdout=subprocess.PIPE, stderr=subprocess.STDOUT)
    passed = set()
    try:
        root = ET.parse(junit).getroot()
    except Exception as e:
        print(p.stdout.decode()[-3000:])
        print("could not parse junit:", e)
        return 2
    for tc in root.iter("testcase"):
        bad = any(ch.tag in ("failure", "error", "skipped") for ch in tc)
        if not bad:
            passed.add("%s::%s" % (tc.get("classname"), tc.get("name")))
    want = None
    if os.path.exists(BASE):
        want = set(json.load(open(BASE))["stable_pass"])
    else:
        alt = os.path.join(os.path.dirname(os.path.abspath(__file__)), "stable_pass.json")
        want = set(json.load(open(alt)))
    missing = sorted(want - passed)
    print("stable_pass=%d passed_now=%d missing=%d" % (len(want), len(passed), len(missing)))
    for m in missing[:40]:
        print("  NOT PASSING:", m)
    import shutil
    shutil.rmtree(out, ignore_errors=True)
    return 0 if not missing else 1


if __name__ == "__main__":
    sys.exit(main())
