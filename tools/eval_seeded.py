#!/usr/bin/env python
"""Evaluate seeded changes: /verif/seeded/<name>/{patch.diff, demo.py, meta.json}.

usage: tools/eval_seeded.py [--checks "C01 C02"] [--all-checks] [--in-repo] NAME...
For each change: create a scratch worktree of /repo outside /repo and /verif, apply the
patch, (1) confirm the pinned tests still pass, (2) confirm demo.py fails with the change
and passes without, (3) run the named checks (default: the property the change targets)
against the patched tree through PROVSIM_REPO, (4) remove the worktree.  With --in-repo
the patch is applied to /repo itself (git apply) and undone afterwards (git checkout -- .).
Writes/updates meta.json["evaluation"].

--dir benign evaluates /verif/benign/<name>/ instead: changes that alter behaviour no
property constrains, where the expected result is that *no* check reports anything (use
with --all-checks); --keep-logs DIR keeps the output and replay files of non-zero exits.
"""
import json
import os
import shutil
import subprocess
import sys
import tempfile
import time

VERIF = os.path.dirname(os.path.dirname(os.path.abspath(__file__)))
REPO = "/repo"
PY = "/venv/bin/python"


def sh(cmd, **kw):
    return subprocess.run(cmd, shell=isinstance(cmd, str), stdout=subprocess.PIPE, stderr=subprocess.STDOUT, **kw)


def run_demo(demo, src):
    # fixed hash seed: some demos compare reprs of sets and are otherwise flaky on any tree
    env = dict(os.environ, PYTHONPATH=src, PROV_SRC=src, PYTHONDONTWRITEBYTECODE="1", PYTHONHASHSEED="0")
    p = sh([PY, demo], env=env, cwd=os.path.dirname(demo), timeout=600)
    return p.returncode, p.stdout.decode("utf-8", "replace")[-600:]


def main(argv):
    checks_override = None
    in_repo = False
    subdir = "seeded"
    keep_logs = None
    names = []
    i = 0
    while i < len(argv):
        if argv[i] == "--checks":
            checks_override = argv[i + 1].split()
            i += 2
        elif argv[i] == "--all-checks":
            from_manifest = json.load(open(os.path.join(VERIF, "MANIFEST.json")))
            checks_override = [c["property_id"] for c in from_manifest["checks"]]
            i += 1
        elif argv[i] == "--in-repo":
            in_repo = True
            i += 1
        elif argv[i] == "--skip-tests":
            i += 1
        elif argv[i] == "--dir":  # "benign": property-preserving changes, every check must stay silent
            subdir = argv[i + 1]
            i += 2
        elif argv[i] == "--keep-logs":
            keep_logs = argv[i + 1]
            i += 2
        else:
            names.append(argv[i])
            i += 1
    if not names:
        names = sorted(os.listdir(os.path.join(VERIF, subdir)))
    for name in names:
        d = os.path.join(VERIF, subdir, name)
        meta_p = os.path.join(d, "meta.json")
        meta = json.load(open(meta_p)) if os.path.exists(meta_p) else {}
        patch = os.path.join(d, "patch.diff")
        demo = os.path.join(d, "demo.py")
        prop = meta.get("property", name.split("-")[0])
        checks = checks_override or meta.get("checks", [prop])
        ev = {"when": time.strftime("%Y-%m-%d %H:%M"), "checks": {}}
        base = tempfile.mkdtemp(prefix="seeded-eval-")
        wt = os.path.join(base, "wt")
        try:
            if in_repo:
                wt = REPO
                p = sh(["git", "-C", REPO, "apply", patch])
            else:
                sh(["git", "-C", REPO, "worktree", "add", "-q", "--detach", wt, "HEAD"])
                p = sh(["git", "-C", wt, "apply", patch])
            if p.returncode != 0:
                ev["apply"] = "FAILED: " + p.stdout.decode()[-400:]
                print(name, "patch does not apply:", ev["apply"])
                meta["evaluation"] = ev
                json.dump(meta, open(meta_p, "w"), indent=1)
                continue
            ev["apply"] = "ok"
            src = os.path.join(wt, "src")
            if os.path.exists(demo):
                rc_mut, out_mut = run_demo(demo, src)
                rc_orig, out_orig = run_demo(demo, os.path.join(REPO, "src")) if not in_repo else (None, "")
                ev["demo_with_change"] = rc_mut
                ev["demo_without_change"] = rc_orig
                ev["demo_output_with_change"] = out_mut[-300:]
            if "--skip-tests" not in argv:
                env = dict(os.environ, PROVSIM_REPO=wt, PYTHONPATH=src)
                t = sh([PY, os.path.join(VERIF, "tools", "baseline.py")], env=env, cwd=VERIF)
                ev["pinned_tests"] = t.stdout.decode().strip().splitlines()[0] if t.stdout else "?"
                ev["pinned_tests_rc"] = t.returncode
            for c in checks:
                env = dict(os.environ, PROVSIM_REPO=wt, PROVSIM_EVIDENCE_DIR=os.path.join(base, "evidence"),
                           PROVSIM_REPLAY_DIR=os.path.join(base, "replays"))
                env.pop("PYTHONPATH", None)
                t0 = time.time()
                code = os.environ.get("PROVSIM_VERIF_CODE", VERIF)  # e.g. an older commit of /verif
                r = sh([PY, "-m", "provsim.check", c, "quick"], env=env, cwd=code, timeout=3000)
                out = r.stdout.decode("utf-8", "replace")
                if keep_logs and r.returncode != 0:
                    os.makedirs(os.path.join(keep_logs, name), exist_ok=True)
                    open(os.path.join(keep_logs, name, c + ".log"), "w").write(out)
                    rp = os.path.join(base, "replays", c)
                    if os.path.isdir(rp):
                        shutil.copytree(rp, os.path.join(keep_logs, name, c + "-replays"), dirs_exist_ok=True)
                viol = [l for l in out.splitlines() if l.startswith("VIOLATION")]
                sigs = [l.strip()[:200] for l in out.splitlines() if l.strip().startswith("signature=")]
                ev["checks"][c] = {"exit": r.returncode, "violations": len(viol), "signatures": sigs[:4],
                                   "wall_s": round(time.time() - t0, 1), "last": out.strip().splitlines()[-1][:200] if out.strip() else ""}
            caught = [c for c, v in ev["checks"].items() if v["exit"] == 1]
            ev["caught_by"] = caught
            print("%-28s demo(with/without)=%s/%s tests_rc=%s caught_by=%s" % (
                name, ev.get("demo_with_change"), ev.get("demo_without_change"), ev.get("pinned_tests_rc"), caught))
        finally:
            if in_repo:
                sh(["git", "-C", REPO, "checkout", "--", "."])
            else:
                sh(["git", "-C", REPO, "worktree", "remove", "--force", wt])
            shutil.rmtree(base, ignore_errors=True)
        meta[os.environ.get("PROVSIM_EVAL_KEY", "evaluation")] = ev
        json.dump(meta, open(meta_p, "w"), indent=1)
    return 0


if __name__ == "__main__":
    sys.exit(main(sys.argv[1:]))
