#!/bin/bash
# usage: tools/sweep.sh "<seeds>" "<props>" [tier]   - run checks under several VERIF_SEED values
cd "$(dirname "$0")/.."
SEEDS=${1:-"1 2 3"}
PROPS=${2:-"C01 C02 C03 C04 C05 C07 C08 C09 C12 C13 C16 C17 C18"}
TIER=${3:-quick}
for s in $SEEDS; do
  for p in $PROPS; do
    if [ -f provsim/oracles/$(echo $p | tr A-Z a-z).py ]; then
      out=$(VERIF_SEED=$s timeout 3000 /venv/bin/python -m provsim.check $p $TIER 2>&1)
      rc=$?
      echo "seed=$s $p rc=$rc $(echo "$out" | tail -1)"
      if [ $rc -ne 0 ]; then echo "$out" | grep -A2 "VIOLATION\|HARNESS" | cut -c1-1500; fi
    fi
  done
done
