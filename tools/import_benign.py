#!/usr/bin/env python
"""Copy sub-agent results /tmp/wt/<Bk>/out/b<j>/ into /verif/benign/<Bk>-b<j>/ with a meta.json."""
import json, os, shutil, sys
src_root = sys.argv[1] if len(sys.argv) > 1 else "/tmp/wt"
dst_root = os.path.join(os.path.dirname(os.path.dirname(os.path.abspath(__file__))), "benign")
for area in sorted(os.listdir(src_root)):
    out = os.path.join(src_root, area, "out")
    if not (area[:1] in "BE" and os.path.isdir(out)):
        continue
    for m in sorted(os.listdir(out)):
        d = os.path.join(out, m)
        if not (m.startswith("b") and os.path.isdir(d) and os.path.exists(os.path.join(d, "patch.diff"))):
            continue
        name = "%s-%s" % (area, m)
        dst = os.path.join(dst_root, name)
        if os.path.exists(dst):
            continue
        os.makedirs(dst)
        for f in ("patch.diff", "demo.py", "notes.md"):
            if os.path.exists(os.path.join(d, f)):
                shutil.copy(os.path.join(d, f), os.path.join(dst, f))
        notes = open(os.path.join(dst, "notes.md")).read() if os.path.exists(os.path.join(dst, "notes.md")) else ""
        meta = {"kind": "benign", "origin": "written by an independent sub-agent given only the property texts and a scratch worktree; "
                "meant to change behaviour that no property constrains",
                "summary": notes.splitlines()[0] if notes else ""}
        json.dump(meta, open(os.path.join(dst, "meta.json"), "w"), indent=1)
        print("imported", name)
