#!/usr/bin/env python
"""Print a markdown table of /verif/seeded/*/meta.json evaluations."""
import json, os, re
root = os.path.join(os.path.dirname(os.path.dirname(os.path.abspath(__file__))), "seeded")
rows = []
for name in sorted(os.listdir(root)):
    mp = os.path.join(root, name, "meta.json")
    if not os.path.exists(mp):
        continue
    m = json.load(open(mp))
    notes = m.get("needs_to_manifest", "")
    first = ""
    for line in notes.splitlines():
        line = line.strip(" #*-")
        if len(line) > 25:
            first = line
            break
    first = re.sub(r"\s+", " ", first)[:150]
    ev = m.get("evaluation", {})
    before = m.get("evaluation_before_strengthening")
    b = "-" if before is None else ("yes" if before.get("caught_by") else "**no**")
    now = ", ".join(ev.get("caught_by", [])) or "**missed**"
    sig = ""
    for c, v in ev.get("checks", {}).items():
        if v.get("signatures"):
            mm = re.search(r'signature=(\[[^\]]*\])', v["signatures"][0])
            sig = mm.group(1) if mm else ""
            break
    rows.append("| %s | %s | %s | %s | %s |" % (name, first, b, now, sig.replace("|", "/")))
print("| change | what it is / needs (from the author's notes) | caught by the checks as first built | caught now by | first signature |")
print("|---|---|---|---|---|")
print("\n".join(rows))
