#!/usr/bin/env python
"""Regenerate /verif/MANIFEST.json from the table below (single source of truth)."""
import json
import os

VERIF = os.path.dirname(os.path.dirname(os.path.abspath(__file__)))

CHECKS = {
    "C18": dict(
        technique="deterministic simulation: seeded record-insertion histories, per-step index-coherence invariant",
        text="Seeded exploration of histories over every record-adding path (new_record, factories, convenience methods, add_record, update, add_bundle, constructor records, JSON/XML deserialisation, unified, flattened); after every step every live container is checked: get_record in 5 spellings == scan of get_records by identifier URI (same objects, same order), get_records(cls) == isinstance filter for 20 classes, records is an independent copy. A pass is evidence over the explored histories, not proof.",
        note="Trusted: the strict observer (public accessors only), CPython, the pools/history bounds (<=3 documents x <=3 bundles, <=45 steps).",
        ref="DESIGN.md section 4, C18",
    ),
}

NOT_APPLICABLE = [
    ("C06", "pure function document -> PROV-N text judged by an independent parser; no schedule, clock, fault or history for a simulator to decide (export purity and destination agreement of the PROV-N writer are covered under C13/C16)"),
    ("C10", "differential test of emitted JSON/XML against a specification-derived second reader; a pure function of the document and writer options, nothing to schedule or fault"),
    ("C11", "quantifies over input texts only (grammar-based generation / corpus mutation); no schedule, fault, clock or history"),
    ("C14", "prov_to_graph / graph_to_prov are pure functions of a bundle-free document; no I/O, time or ordering under a simulator's control"),
    ("C15", "DOT validity over documents x display options is a pure function judged by Graphviz; not a simulation target"),
]

PENDING = []


def main():
    checks = []
    for pid in sorted(CHECKS):
        c = CHECKS[pid]
        level = "fault_enumeration" if pid == "C17" else "exploration"
        checks.append({
            "property_id": pid,
            "quick_cmd": "timeout 900 /venv/bin/python -m provsim.check %s quick" % pid,
            "thorough_cmd": "timeout 3000 /venv/bin/python -m provsim.check %s thorough" % pid,
            "evidence_file": "/verif/evidence/%s.json" % pid,
            "replay_cmd_template": "/venv/bin/python -m provsim.replay {path}",
            "engine": "provsim",
            "level_claimed": {"category": level, "text": c["text"], "design_ref": c["ref"]},
            "level_note": c["note"],
            "technique": c["technique"],
        })
    na = [{"property_id": p, "reason": r} for p, r in NOT_APPLICABLE]
    for p, r in PENDING:
        na.append({"property_id": p, "reason": r})
    m = {
        "version": 1,
        "setup_cmd": "cd /verif && /venv/bin/python -m provsim.selfcheck",
        "hooks": {
            "guard": "PROV_VERIF",
            "enable": "no source hooks exist: every seam (PYTHONHASHSEED, rdflib.term.uuid4, dateutil default=, tempfile names, open/os.* interposers, stream arguments) is installed by the harness from outside /repo; the guard name is reserved and unused",
            "baseline_off_cmd": "cd /verif && /venv/bin/python tools/baseline.py",
            "source_commits": [],
            "add_only": True,
        },
        "engines": [{
            "name": "provsim",
            "path": "/verif/provsim",
            "serves_properties": sorted(CHECKS),
            "kind_free_text": "deterministic simulation with fault injection: seeded operation-history scheduler over a small world of documents/bundles/records, strict URI-level observer, reference models, per-worker PYTHONHASHSEED, seeded blank-node ids, simulated clock, simulated streams and fault-injecting file-system interposer; delta-debugging minimiser; replay files",
        }],
        "checks": checks,
        "notes": "Checks run the library from /repo/src (asserted at start-up). Exit 0 pass, 1 violation (VIOLATION line + replay file), 2 harness error. Known findings: /verif/known_findings.json. See DESIGN.md.",
        "not_applicable": na,
    }
    with open(os.path.join(VERIF, "MANIFEST.json"), "w") as f:
        json.dump(m, f, indent=1)
    print("MANIFEST.json written: %d checks, %d not_applicable" % (len(checks), len(na)))


if __name__ == "__main__":
    main()
