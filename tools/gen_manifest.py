#!/usr/bin/env python
"""Regenerate /verif/MANIFEST.json from the table below (single source of truth)."""
import json
import os

VERIF = os.path.dirname(os.path.dirname(os.path.abspath(__file__)))

TRUST = "Trusted: the strict observer (public accessors only), the reference model written from the property text, CPython; bounded pools and history lengths (see DESIGN.md section 3)."

CHECKS = {
    "C01": dict(
        technique="deterministic simulation: seeded construction/namespace histories, strict URI-level round-trip oracle through the baseline stream layer with swarm-randomised json.dump options, hash seeds, clock jumps and cache resets between write and read",
        text="Seeded histories over all 18 record kinds, argument masks, identified/anonymous relations, repeated identifiers, bundles (created, attached, updated), interleaved namespace declarations with clashing prefixes and defaults at both levels, every value kind; at random points and at the end the document is written as PROV-JSON (indent/sort_keys/ensure_ascii drawn per export, to a returned string / text stream / binary stream) and read back (content str / bytes / text stream / binary stream), optionally with a simulated clock jump and a cache reset in between; the strict observer demands identical multisets of (type, identifier URI, attribute URI, kind-aware value) per container and identical bundle identifier URIs. Evidence, not proof.",
        note=TRUST,
        ref="DESIGN.md section 4, C01",
    ),
    "C02": dict(
        technique="deterministic simulation: as C01 for PROV-XML with force_types in {False, True} and an eligibility predicate evaluated on strict snapshots",
        text="As C01 for PROV-XML, both values of force_types, with bundles declaring their own prefixes and default namespaces, empty strings and default-namespace attribute names weighted up; states outside the quantifier (attribute local names that are not NCNames, non-XML characters, non-string prov:label, xsd:QName literals) are recognised by a predicate on the snapshot and not judged. Evidence, not proof.",
        note=TRUST,
        ref="DESIGN.md section 4, C02",
    ),
    "C03": dict(
        technique="deterministic simulation: seeded namespace-operation histories, per-step history invariants (a)(b)(c) with re-resolution of every name ever handed out",
        text="Seeded exploration of interleavings of add_namespace / set_default_namespace / valid_qualified_name / record creation / update / add_bundle on documents and bundles (created by bundle() or free-standing and attached later), with clashing prefixes, equal URIs under different prefixes, generated-looking and reserved prefixes, URIs that are prefixes of each other. After every step and for every live container: resolved names keep their URI, the observable prefix table and default are monotone, add_namespace's returned prefix is bound to the requested URI, prov/xsd/xsi never move, and every name the container ever handed out re-resolves to the same URI. Evidence over explored histories, not proof.",
        note=TRUST + " Usage discipline from the quantifier (a scope's default namespace is never re-bound) is enforced by the executor.",
        ref="DESIGN.md section 4, C03",
    ),
    "C04": dict(
        technique="deterministic simulation: seeded histories + single-edit/content-preserving partners, equivalence laws vs a reference relation, same seeds under several PYTHONHASHSEED classes",
        text="Per run a base document is built by a seeded history, then 5-9 partners (permuted / re-prefixed / duplicated / rebuilt via the records constructor / round-tripped, or rebuilt with exactly one of 13 edit kinds); ~45 ordered document comparisons and record comparisons are judged: reflexive, symmetric, != agrees, transitive over all triples, == iff the reference content equivalence, equal records have equal hashes. Each run seed is executed under 4 (quick) / 32 (thorough) hash seeds and the verdict logs must be identical, so hash-order dependent verdicts are caught. Evidence, not proof.",
        note=TRUST + " Reference equality uses Python numeric and datetime equality for values, as the property allows.",
        ref="DESIGN.md section 4, C04",
    ),
    "C05": dict(
        technique="deterministic simulation: seeded construction/attribute histories, per-step normal-form invariant + transition model of add_attributes/set_time/constructors",
        text="Seeded histories over all 18 record kinds created through new_record, typed factories and element convenience methods, with formal arguments as record objects, QualifiedNames, prefix:local, bare and full-URI strings, times as datetime or ISO string, followed by add_attributes (dict and pair form), set_time, add_asserted_type, re-adding the same and adding a different formal value, Literal(v, xsd:T) versus native values. After every step every live record is checked for the normal form, and each operation's outcome (no-op / ProvException / union; stored Python value) is compared with a transition model written from the property text. Evidence, not proof.",
        note=TRUST + " Operations whose names are given as strings that may be unresolvable are checked by the invariant only (counted as transition_unmodelled).",
        ref="DESIGN.md section 4, C05",
    ),
    "C07": dict(
        technique="deterministic simulation: seeded histories inside the PROV-O-expressible space, one seeded blank-node id stream (rdflib.term.uuid4 seam) and hash seed per run, set-based strict comparison with unified()",
        text="Seeded histories biased into the quantifier's space and filtered by an eligibility predicate written from it (names under document-level prefixes, non-empty bundles, one kind per identifier, first two formal arguments, no mention, no PROV class as relation type, anonymous binary-only relations without attributes, value kinds); each eligible state is written in the default TriG syntax and read back: no exception may occur and the strict per-container *set* of records must equal that of unified(). Every run draws its own blank-node identifiers from the run seed, so each seed is one exact TriG order / reader triple order and orders vary across seeds; workers run under different PYTHONHASHSEED values. Evidence, not proof.",
        note=TRUST + " Interpretation: identified or attributed alternate/specialization/membership (no qualified class in PROV-O), elements typed with the name of a PROV record kind, and names whose local part cannot be written as a Turtle prefixed name are treated as outside 'PROV-O-expressible'.",
        ref="DESIGN.md section 4, C07",
    ),
    "C08": dict(
        technique="deterministic simulation: seeded identifier-reuse histories, refinement of unified() against a reference merge, idempotence, source non-interference",
        text="Seeded histories with identifier pools of 2-3 names (same identifier on several records of one kind with overlapping/conflicting attributes, on different kinds, inside and outside bundles, through different prefixes); every unified() call on a document or bundle is compared with a reference merge (conflict => ProvException; else one record per identifier and kind carrying the union, anonymous records untouched, first-occurrence order, same bundle identifiers), must return a new object, leave the source's content and namespaces unchanged, and be idempotent. Evidence, not proof.",
        note=TRUST,
        ref="DESIGN.md section 4, C08",
    ),
    "C09": dict(
        technique="deterministic simulation: seeded sequences of update/add_bundle/bundle()/flattened over 2-3 documents with clashing namespace environments, multiset conservation vs reference, refusals leave state unchanged",
        text="Seeded sequences of flattened, update, add_bundle (bundle / bundle-free document / document with bundles / without identifier / duplicate identifier / non-bundle) and bundle() on 2-3 documents with clashing prefixes, different defaults at both levels, shared bundle identifiers; each call is compared with reference multiset operations on strict URI-level snapshots, the other argument must stay unchanged, and every refusal must be a ProvException leaving the document exactly as before. Evidence, not proof.",
        note=TRUST + " Re-attaching an already attached bundle, adding a document to itself and d.update(d) are outside the quantifier and skipped by the executor.",
        ref="DESIGN.md section 4, C09",
    ),
    "C12": dict(
        technique="deterministic simulation: seeded histories of deriving operations followed by mutations on either side, write-set non-interference invariant over all live objects",
        text="Seeded histories mixing copy, add_record, document-from-records, update, add_bundle, unified, flattened and JSON/XML deserialisation with mutators (attributes, records, namespaces, defaults, bundles) applied to sources and results alike; every operation declares a write set and after each step every other live document, bundle and record must have an identical strict snapshot (content, registered namespaces, default namespace, bundle identifiers). Evidence, not proof.",
        note=TRUST + " A record's write set includes the bundle it belongs to (attribute names are resolved there).",
        ref="DESIGN.md section 4, C12",
    ),
    "C13": dict(
        technique="deterministic simulation: seeded histories with exporter calls in any order, empty-write-set invariant, second-call and twin-world text equality",
        text="Seeded histories in which serialisation to json/xml(+-force_types)/rdf/provn, get_provn, graph and DOT conversion (all option combinations), ==, hashing, unified and flattened are called at random points and repeatedly; after each such call every live object must be unchanged (content with record order, namespaces, defaults), the same call repeated must give identical text (isomorphic graphs for RDF), and a twin world built by the same operations in the same process must export byte-identical text. Evidence, not proof.",
        note=TRUST + " RDF output that rdflib itself cannot parse back is not compared (counted).",
        ref="DESIGN.md section 4, C13",
    ),
    "C16": dict(
        technique="deterministic simulation of the I/O surface: per seeded document state the complete destination-kind x source-kind x format x detection-mode product over stdlib streams, real files in a private directory and simulated streams (chunked / non-seekable / failing), under an emulated platform default encoding",
        text="For every sampled state (seeded history inside the intersection of the C01/C02/C07 spaces, non-ASCII content forced) all cells are enumerated: json/xml/rdf/provn written to a returned string, StringIO, BytesIO, simulated text and binary streams, files opened 'w' and 'wb', and a path must agree (UTF-8 for binary targets, C14N for XML, restarted blank-node stream for RDF); the produced text read back as content str, content bytes, text/binary streams (stdlib, chunked, non-seekable, short-read raw), files and paths, and through prov.read with and without a format, must all give the same strict snapshot; platform default encoding in {utf-8, cp1252, ascii}; write errors on destination streams must propagate. The kinds product is complete per state; states are sampled.",
        note=TRUST + " Stream stubs honour the io ABCs; the platform encoding is emulated at the open() boundary.",
        ref="DESIGN.md section 4, C16",
    ),
    "C17": dict(
        technique="deterministic simulation with fault injection: per seeded scenario every Python-level I/O instant of serialize(destination=path) is failed, torn and crashed in turn (with and without a cross-device temp directory) in a real private directory",
        text="Scenario = seeded document state x format/options x file-name class (relative, absolute, sub-directory, spaces, non-ASCII, '#', '?', ';', ':', '%41') x destination absent/pre-existing x temp directory on the same/another device. A fault-free instrumented run must leave exactly the reference bytes in exactly the named file and nothing else new; then every instant of its trace (mkstemp, fdopen, each write, close, rename/replace, copy steps, unlink) x {error, torn write, crash} is injected alone in a fresh directory (thorough: plus seeded double faults): when the call ends the named file must hold its old content in full (or be absent) or the complete new serialisation, a normal return requires the new content, a restarted reader must see what the reference bytes give, and one fault-free retry must succeed.",
        note="Trusted: the interposer's instants are Python-level calls (C code writing to a file name would be invisible; none today); power loss without fsync is not modelled; kernel rename/truncate semantics are real.",
        ref="DESIGN.md section 4, C17",
    ),
    "C18": dict(
        technique="deterministic simulation: seeded record-insertion histories, per-step index-coherence invariant",
        text="Seeded exploration of histories over every record-adding path (new_record, factories, convenience methods, add_record, update, add_bundle, constructor records, JSON/XML deserialisation, unified, flattened); after every step every live container is checked: get_record in 5 spellings == scan of get_records by identifier URI (same objects, same order), get_records(cls) == isinstance filter for 20 classes, records is an independent copy. A pass is evidence over the explored histories, not proof.",
        note=TRUST,
        ref="DESIGN.md section 4, C18",
    ),
}

NOT_APPLICABLE = [
    ("C06", "pure function document -> PROV-N text judged by an independent parser; no schedule, clock, fault or history for a simulator to decide (export purity and destination agreement of the PROV-N writer are covered under C13/C16)"),
    ("C10", "differential test of emitted JSON/XML against a specification-derived second reader; a pure function of the document and writer options, nothing to schedule or fault"),
    ("C11", "quantifies over input texts only (grammar-based generation / corpus mutation); no schedule, fault, clock or history"),
    ("C14", "prov_to_graph / graph_to_prov are pure functions of a bundle-free document; no I/O, time or ordering under a simulator's control"),
    ("C15", "DOT validity over documents x display options is a pure function judged by Graphviz; not a simulation target"),
]

ALL_CLAIMED = ["C01", "C02", "C03", "C04", "C05", "C07", "C08", "C09", "C12", "C13", "C16", "C17", "C18"]


def main():
    checks = []
    for pid in sorted(CHECKS):
        c = CHECKS[pid]
        level = "fault_enumeration" if pid == "C17" else "exploration"
        checks.append({
            "property_id": pid,
            "quick_cmd": "timeout 900 /venv/bin/python -m provsim.check %s quick" % pid,
            "thorough_cmd": "timeout 3000 /venv/bin/python -m provsim.check %s thorough" % pid,
            "evidence_file": "/verif/evidence/%s.json" % pid,
            "replay_cmd_template": "/venv/bin/python -m provsim.replay {path}",
            "engine": "provsim",
            "level_claimed": {"category": level, "text": c["text"], "design_ref": c["ref"]},
            "level_note": c["note"],
            "technique": c["technique"],
        })
    na = [{"property_id": p, "reason": r} for p, r in NOT_APPLICABLE]
    for p in ALL_CLAIMED:
        if p not in CHECKS:
            na.append({"property_id": p, "reason": "not claimed yet: the check for this property is still under construction (DESIGN.md section 4 describes it)"})
    m = {
        "version": 1,
        "setup_cmd": "cd /verif && /venv/bin/python -m provsim.selfcheck",
        "hooks": {
            "guard": "PROV_VERIF",
            "enable": "no source hooks exist: every seam (PYTHONHASHSEED, rdflib.term.uuid4, dateutil default=, tempfile names, open/os.* interposers, stream arguments) is installed by the harness from outside /repo; the guard name is reserved and unused",
            "baseline_off_cmd": "cd /verif && /venv/bin/python tools/baseline.py",
            "source_commits": [],
            "add_only": True,
        },
        "engines": [{
            "name": "provsim",
            "path": "/verif/provsim",
            "serves_properties": sorted(CHECKS),
            "kind_free_text": "deterministic simulation with fault injection: seeded operation-history scheduler over a small world of documents/bundles/records, strict URI-level observer, reference models, per-worker PYTHONHASHSEED, seeded blank-node ids, simulated clock, simulated streams and fault-injecting file-system interposer; delta-debugging minimiser; replay files",
        }],
        "checks": checks,
        "notes": "Checks run the library from /repo/src (asserted at start-up). Exit 0 pass, 1 violation (VIOLATION line + replay file), 2 harness error. Known findings: /verif/known_findings.json. See DESIGN.md.",
        "not_applicable": na,
    }
    with open(os.path.join(VERIF, "MANIFEST.json"), "w") as f:
        json.dump(m, f, indent=1)
    print("MANIFEST.json written: %d checks, %d not_applicable" % (len(checks), len(na)))


if __name__ == "__main__":
    main()
