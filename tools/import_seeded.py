#!/usr/bin/env python
"""Copy sub-agent results /tmp/wt/<PROP>/out/m<k>/ into /verif/seeded/<PROP>-m<k>/ with a meta.json."""
import json, os, shutil, sys
src_root = sys.argv[1] if len(sys.argv) > 1 else "/tmp/wt"
dst_root = os.path.join(os.path.dirname(os.path.dirname(os.path.abspath(__file__))), "seeded")
suffix = sys.argv[2] if len(sys.argv) > 2 else ""
for prop in sorted(os.listdir(src_root)):
    out = os.path.join(src_root, prop, "out")
    if not os.path.isdir(out):
        continue
    for m in sorted(os.listdir(out)):
        d = os.path.join(out, m)
        if not (os.path.isdir(d) and os.path.exists(os.path.join(d, "patch.diff"))):
            continue
        name = "%s-%s%s" % (prop, m, suffix)
        dst = os.path.join(dst_root, name)
        if os.path.exists(dst):
            continue
        os.makedirs(dst)
        for f in ("patch.diff", "demo.py", "notes.md"):
            if os.path.exists(os.path.join(d, f)):
                shutil.copy(os.path.join(d, f), os.path.join(dst, f))
        notes = open(os.path.join(dst, "notes.md")).read() if os.path.exists(os.path.join(dst, "notes.md")) else ""
        meta = {"property": prop, "origin": "written by an independent sub-agent given only the property text and a scratch worktree",
                "needs_to_manifest": notes[:1500], "checks": [prop]}
        json.dump(meta, open(os.path.join(dst, "meta.json"), "w"), indent=1)
        print("imported", name)
