"""Attribution of violations to known findings.

/verif/known_findings.json is committed and never written at run time.  An *open*
entry names a predicate (implemented here) over the structured facts of the failing
instance - not over messages - so a different violation of the same property is
still reported.  ``fixed`` entries suppress nothing.
"""
import json
import os

VERIF = os.path.dirname(os.path.dirname(os.path.abspath(__file__)))
_PATH = os.path.join(VERIF, "known_findings.json")


def _load():
    try:
        with open(_PATH) as f:
            return json.load(f)
    except (OSError, ValueError):
        return {"findings": []}


_DATA = _load()


# --- predicates over (violation entry) -------------------------------------
def p_never(v):
    return False


def p_bundle_id_scope_mismatch(v):
    """F11b: the source document holds two bundles whose identifiers print identically
    although they denote different URIs (reachable only through add_bundle with an
    identifier whose prefix means something else in the bundle than in the document);
    the PROV-JSON writer then overwrites one bundle with the other."""
    sig = v.get("signature", [])
    if len(sig) < 3:
        return False
    if not (sig[2] == "bundle-identifiers" or sig[2].startswith("read-raised")):
        return False
    facts = v.get("facts", {})
    if not facts.get("bundle_keys_printed_identically"):
        return False
    if sig[2] == "bundle-identifiers":
        # only the colliding bundles may be the ones that went missing / changed
        b = (v.get("detail") or {}).get("bundles") or {}
        diff = set(b.get("expected", [])) ^ set(b.get("got", []))
        return bool(diff) and diff <= set(facts.get("colliding_bundle_uris", []))
    return True


def p_conflated_association(v):
    """F20: one subject carries a plain binary and a qualified association (or delegation);
    the RDF reader folds the binary triple into the qualified node."""
    sig = v.get("signature", [])
    if len(sig) < 3 or sig[2] != "content":
        return False
    if not v.get("facts", {}).get("conflated_association_or_delegation"):
        return False
    # every record in the difference must be an association / delegation
    d = v.get("detail") or {}
    diffs = []
    for key in ("document_records", "bundle_records"):
        part = d.get(key)
        if isinstance(part, dict):
            diffs += list(part.get("only_left", [])) + list(part.get("only_right", []))
    return bool(diffs) and all(("prov#Association'" in x) or ("prov#Delegation'" in x) for x in diffs)


PREDICATES = {"never": p_never, "bundle_id_scope_mismatch": p_bundle_id_scope_mismatch,
              "conflated_association": p_conflated_association}


def predicate(name):
    def deco(fn):
        PREDICATES[name] = fn
        return fn
    return deco


def attribute(prop, v):
    """Return the id of the open finding this violation is an instance of, or None."""
    for f in _DATA.get("findings", []):
        if f.get("status") != "open":
            continue
        if prop not in f.get("properties", []):
            continue
        sig = v.get("signature", [])
        invs = f.get("invariants")
        if invs and (len(sig) < 2 or sig[1] not in invs):
            continue
        pred = PREDICATES.get(f.get("predicate", "never"), p_never)
        try:
            if pred(v):
                return f["id"]
        except Exception:
            continue
    return None


def open_findings(prop):
    return [f for f in _DATA.get("findings", []) if f.get("status") == "open" and prop in f.get("properties", [])]


def describe(fid):
    for f in _DATA.get("findings", []):
        if f["id"] == fid:
            return f.get("what", "")
    return ""
