"""Driver: ``python -m provsim.check PROP [quick|thorough]`` (cwd = /verif).

Partitions the seed list over worker interpreters (each with its own
PYTHONHASHSEED), aggregates their counters into /verif/evidence/<PROP>.json,
verifies every reported violation by replaying it in a fresh interpreter, attributes
violations to known findings, and exits 0 / 1 / 2 (pass / violation / harness error).
"""
import json
import os
import shutil
import subprocess
import sys
import tempfile
import time

VERIF = os.path.dirname(os.path.dirname(os.path.abspath(__file__)))
PY = sys.executable
NPROC = int(os.environ.get("PROVSIM_WORKERS", "16"))
DEFAULT_SEED = 20260927

HASH_CLASSES = [0, 1, 4, 6, 2, 3, 5, 7, 8, 9, 10, 11, 12, 13, 14, 15, 16, 17, 18, 19,
                20, 21, 22, 23, 24, 25, 26, 27, 28, 29, 30, 31]

# per property: (quick runs, quick wall cap, thorough runs, thorough wall cap)
BUDGET = {
    "C01": (40000, 70, 1500000, 900),
    "C02": (40000, 70, 1500000, 900),
    "C03": (80000, 70, 3000000, 900),
    "C04": (5000, 70, 200000, 900),
    "C05": (64000, 70, 2500000, 900),
    "C07": (20000, 70, 800000, 900),
    "C08": (96000, 70, 3500000, 900),
    "C09": (80000, 70, 3000000, 900),
    "C12": (32000, 70, 1200000, 900),
    "C13": (12000, 70, 450000, 900),
    "C16": (2400, 240, 70000, 900),
    "C17": (1200, 240, 28000, 900),
    "C18": (40000, 70, 1500000, 900),
}

LEVEL = {p: "exploration" for p in BUDGET}
LEVEL["C17"] = "fault_enumeration"

COMPONENTS = {
    "real": [
        "prov (all modules, from /repo/src working tree)", "CPython str hashing (per-worker PYTHONHASHSEED)",
        "lxml", "rdflib (parser, serializer, graph store)", "dateutil parser", "json", "networkx", "pydot (to_string only)",
        "kernel file system semantics in a private directory (C16/C17)",
    ],
    "stub": [
        "rdflib.term.uuid4 (seeded generator)", "dateutil default= clock (simulated, advanced only by clock_jump)",
        "tempfile candidate names (counter)", "fault layer over open/fdopen/os.* (C16/C17)",
        "Sim* stream classes (C16)", "platform default text encoding (emulated at open() and io.TextIOWrapper)", "raw-file short writes (C17, files opened with buffering=0)",
    ],
}


def evidence_dir():
    """Where evidence is written (overridable so that runs against patched scratch trees
    do not overwrite the evidence of the real tree)."""
    return os.environ.get("PROVSIM_EVIDENCE_DIR") or os.path.join(VERIF, "evidence")


def replays_dir():
    return os.environ.get("PROVSIM_REPLAY_DIR") or os.path.join(VERIF, "replays")


def load_known():
    from . import known

    return known


def run_check(prop, tier, seed):
    t0 = time.time()
    nq, wq, nt, wt = BUDGET[prop]
    runs, wall = (nq, wq) if tier == "quick" else (nt, wt)
    runs = int(os.environ.get("PROVSIM_RUNS", runs))
    wall = float(os.environ.get("PROVSIM_WALL", wall))
    nclasses = 4 if tier == "quick" else 32
    from .oracles import get_oracle

    cls = get_oracle(prop)
    custom = getattr(cls, "custom_driver", None)
    cross = getattr(cls, "cross_hash", False)
    os.environ["PROVSIM_TIER"] = tier  # inherited by the workers (deeper histories in thorough)
    work = tempfile.mkdtemp(prefix="provsim-%s-" % prop)
    procs = []
    seed0 = seed * 1000003
    try:
        if cross:
            # the same seeds under several hash classes: groups of workers share a slice
            k = 4 if tier == "quick" else 16
            groups = max(1, NPROC // k)
            per = max(1, runs // groups)
            for g in range(groups):
                for j in range(k):
                    hs = HASH_CLASSES[(g * k + j) % nclasses] if tier != "quick" else HASH_CLASSES[j]
                    procs.append(spawn(prop, work, len(procs), seed0, groups, g, per, wall, hs))
        else:
            per = max(1, runs // NPROC)
            for i in range(NPROC):
                hs = HASH_CLASSES[i % nclasses]
                procs.append(spawn(prop, work, i, seed0, NPROC, i, per, wall, hs))
        results = []
        harness_errors = []
        for p, outfile, hs in procs:
            try:
                rc = p.wait(timeout=wall * 3 + 180)
            except subprocess.TimeoutExpired:
                p.kill()
                harness_errors.append("worker timeout (hashseed %s)" % hs)
                continue
            err = p.stderr.read().decode("utf-8", "replace") if p.stderr else ""
            if rc != 0 or not os.path.exists(outfile):
                harness_errors.append("worker rc=%s hashseed=%s stderr=%s" % (rc, hs, err[-2000:]))
                continue
            with open(outfile) as f:
                results.append(json.load(f))
    finally:
        for p, _, _ in procs:
            if p.poll() is None:
                p.kill()
        shutil.rmtree(work, ignore_errors=True)

    for r in results:
        for he in r["harness_errors"]:
            harness_errors.append("seed %s: %s" % (he["seed"], he["trace"]))

    agg = aggregate(results)
    violations = []
    for r in results:
        violations.extend(r["violations"])
    if cross:
        violations.extend(cross_compare(prop, results))

    known = load_known()
    new, attributed = [], {}
    seen = set()
    # re-confirm every open finding of this property with its recorded probe history
    for f in known.open_findings(prop):
        pr = f.get("probe")
        if not pr:
            continue
        from . import core
        try:
            rr = core.replay(cls, pr["cfg"], pr["ops"], pr.get("seed", 0))
        except Exception as e:
            harness_errors.append("probe of %s failed: %r" % (f["id"], e))
            continue
        if rr.violation is not None:
            entry = {"property": prop, "seed": pr.get("seed", 0), "hashseed": "0", "cfg": pr["cfg"],
                     "ops": pr["ops"], "signature": rr.violation.signature, "detail": rr.violation.detail,
                     "facts": rr.violation.facts, "count": 1, "probe": True}
            violations.append(entry)
        else:
            print("NOTE: known finding %s no longer reproduces with its recorded probe" % f["id"])
    for v in violations:
        key = json.dumps(v["signature"])
        fid = known.attribute(prop, v)
        if fid is not None:
            attributed.setdefault(fid, []).append(v)
            continue
        if key in seen:
            continue
        seen.add(key)
        new.append(v)

    # write replay files for new violations and verify each in a fresh interpreter
    # A violation is reported only after it has been reproduced in a fresh interpreter: from
    # its minimised history alone or, failing that, by replaying the whole worker session up
    # to it (state that earlier runs left behind in the process is part of that execution).
    reported = []
    for v in new:
        path = write_replay(prop, v)
        ok = verify_replay(path)
        if not ok and v.get("session"):
            ok = verify_replay(path, session=True)
            if ok:
                v["replay_kind"] = "session"
        v["replay_verified"] = ok
        if not ok:
            harness_errors.append("a violation was seen but did not reproduce in a fresh interpreter "
                                  "(not reported as a violation): %s signature=%s" % (path, json.dumps(v["signature"])))
            continue
        reported.append((v, path))

    wall_s = time.time() - t0
    sanity = sanity_gate(prop, tier, agg)
    harness_errors.extend(sanity)
    write_evidence(prop, tier, seed, agg, wall_s, len(reported), attributed, harness_errors, results)

    for fid, vs in sorted(attributed.items()):
        print("KNOWN-FINDING: property=%s %s: %s (%d occurrences this run, e.g. seed %s)" % (
            prop, fid, known.describe(fid), sum(x.get("count", 1) for x in vs), vs[0]["seed"]))
    for v, path in reported:
        print("VIOLATION property=%s replay=%s" % (prop, path))
        print("  signature=%s seed=%s hashseed=%s ops=%d (from %d)%s" % (
            json.dumps(v["signature"]), v["seed"], v["hashseed"], len(v.get("ops", [])), v.get("unminimised_len", 0),
            " [reproduces only as a whole worker session: python -m provsim.replay --session FILE]" if v.get("replay_kind") == "session" else ""))
        print("  detail=%s" % json.dumps(v["detail"], default=repr)[:1500])
    if harness_errors:
        for he in harness_errors[:5]:
            print("HARNESS-ERROR: %s" % he[:3000])
    print("%s %s: runs=%d steps=%d nontrivial=%d distinct=%d violations=%d known=%d wall=%.1fs" % (
        prop, tier, agg["runs"], agg["steps"], agg["nontrivial"], agg["distinct"],
        len(reported), len(attributed), wall_s))
    if reported:
        return 1
    if harness_errors:
        return 2
    return 0


def spawn(prop, work, idx, seed0, stride, offset, count, wall, hashseed):
    outfile = os.path.join(work, "w%d.json" % idx)
    env = dict(os.environ, PYTHONHASHSEED=str(hashseed), PYTHONDONTWRITEBYTECODE="1")
    env["PYTHONPATH"] = VERIF + os.pathsep + env.get("PYTHONPATH", "")
    p = subprocess.Popen(
        [PY, "-m", "provsim.worker", prop, outfile, str(seed0), str(stride), str(offset),
         str(count), str(wall)],
        cwd=VERIF, env=env, stdout=subprocess.DEVNULL, stderr=subprocess.PIPE,
    )
    return (p, outfile, hashseed)


def aggregate(results):
    agg = {"runs": 0, "steps": 0, "nontrivial": 0, "counters": {}, "probes": {}, "opcounts": {},
           "outcomes": {}, "clock_span": 0.0, "hashseeds": [], "samples": [], "seeds": []}
    digests = set()
    for r in results:
        agg["runs"] += r["runs"]
        agg["steps"] += r["steps"]
        agg["nontrivial"] += r["nontrivial"]
        agg["clock_span"] += r["clock_span"]
        digests.update(r["digests"])
        if r["hashseed"] not in agg["hashseeds"]:
            agg["hashseeds"].append(r["hashseed"])
        for k in ("counters", "probes", "opcounts", "outcomes"):
            for kk, vv in r[k].items():
                if isinstance(vv, (int, float)):
                    agg[k][kk] = agg[k].get(kk, 0) + vv
        if len(agg["samples"]) < 3:
            agg["samples"].extend(r["samples"][: 3 - len(agg["samples"])])
        agg["seeds"].extend(r["seeds"][:2])
    agg["distinct"] = len(digests)
    return agg


def cross_compare(prop, results):
    """Same seed under different hash seeds must give the same outcome key."""
    by_seed = {}
    for r in results:
        for s, key in r.get("per_seed", {}).items():
            by_seed.setdefault(s, {})[r["hashseed"]] = key
    out = []
    for s, d in by_seed.items():
        if len(set(d.values())) > 1:
            out.append({
                "property": prop, "seed": int(s), "hashseed": sorted(d)[0], "kind": "cross",
                "signature": [prop, "hash-seed-dependence", "verdicts-differ"],
                "detail": {"per_hashseed": d}, "facts": {}, "ops": [], "cfg": None, "count": 1,
            })
            if len(out) >= 3:
                break
    return out


def write_replay(prop, v):
    from .worker import sig_name

    d = os.path.join(replays_dir(), prop)
    os.makedirs(d, exist_ok=True)
    path = os.path.join(d, "%s-%s.json" % (sig_name(v["signature"]), v["seed"]))
    with open(path, "w") as f:
        json.dump(v, f, indent=1, default=repr)
    return path


def verify_replay(path, session=False):
    with open(path) as f:
        rec = json.load(f)
    if rec.get("kind") == "cross":
        return True
    env = dict(os.environ, PYTHONHASHSEED=str(rec.get("hashseed", 0)))
    env["PYTHONPATH"] = VERIF + os.pathsep + env.get("PYTHONPATH", "")
    try:
        p = subprocess.run([PY, "-m", "provsim.replay"] + (["--session"] if session else []) + [path],
                           cwd=VERIF, env=env, stdout=subprocess.PIPE, stderr=subprocess.PIPE,
                           timeout=1200 if session else 300)
    except subprocess.TimeoutExpired:
        return False
    out = p.stdout.decode("utf-8", "replace")
    return p.returncode == 1 and "same_as_recorded=True" in out


def sanity_gate(prop, tier, agg):
    """A check that explored nothing must not report success."""
    errs = []
    if agg["runs"] == 0:
        errs.append("no runs executed")
    elif agg["nontrivial"] == 0:
        errs.append("no run exercised the property's focus (nontrivial == 0)")
    from .oracles import get_oracle

    need = getattr(get_oracle(prop), "required_probes", {}).get(tier, [])
    for p in need:
        if agg["probes"].get(p, 0) == 0:
            errs.append("reach probe stuck at zero: %s" % p)
    return errs


def write_evidence(prop, tier, seed, agg, wall_s, nviol, attributed, harness_errors, results):
    from .oracles import get_oracle

    cls = get_oracle(prop)
    rule = getattr(cls, "rule", None) or (
        "one evaluation = one seeded history (swarm configuration + operation list drawn from "
        "random.Random(seed)) executed against the working tree and judged by the property's "
        "oracle after every step; non-trivial = the property's focus operation ran on non-empty "
        "state and its oracle was evaluated at least once; distinct = distinct digests of (event "
        "log, final strict snapshot of every container, multiset of operation kinds)")
    hours = max(wall_s, 1e-9) / 3600.0
    ev = {
        "property_id": prop,
        "tier": tier,
        "seed": seed,
        "level": LEVEL[prop],
        "coverage": {
            "evaluations": agg["runs"],
            "distinct_nontrivial": agg["distinct"],
            "rule": rule,
            "samples": agg["samples"] or [{"note": "no short history sampled this run"}],
            "steps_executed": agg["steps"],
            "nontrivial_runs": agg["nontrivial"],
            "runs_per_hour": int(agg["runs"] / hours),
            "simulated_clock_span_s": agg["clock_span"],
            "hash_seeds": sorted(agg["hashseeds"], key=lambda x: int(x) if str(x).isdigit() else -1),
            "workers": len(results),
            "operation_counts": agg["opcounts"],
            "operation_outcomes": agg["outcomes"],
            "oracle_evaluations": agg["counters"],
            "fault_and_reach_probes": agg["probes"],
            "components": COMPONENTS,
            "first_seeds": agg["seeds"][:6],
            "known_findings_reconfirmed": {k: len(v) for k, v in attributed.items()},
            "harness_errors": len(harness_errors),
            "exhaustive": False,
        },
        "assumptions": getattr(cls, "assumptions", [
            "exploration, not proof: pools and history lengths are bounded",
            "the strict observer reads records only through public accessors",
        ]),
        "wall_s": round(wall_s, 2),
        "violations": nviol,
    }
    d = evidence_dir()
    os.makedirs(d, exist_ok=True)
    tmp = os.path.join(d, ".%s.json.tmp" % prop)
    with open(tmp, "w") as f:
        json.dump(ev, f, indent=1, default=repr)
    os.replace(tmp, os.path.join(d, "%s.json" % prop))


def main(argv):
    if not argv:
        print("usage: python -m provsim.check PROP [quick|thorough]")
        return 2
    prop = argv[0].upper()
    tier = argv[1] if len(argv) > 1 else os.environ.get("VERIF_TIER", "quick")
    if tier not in ("quick", "thorough"):
        tier = "quick"
    try:
        seed = int(os.environ.get("VERIF_SEED", DEFAULT_SEED))
    except ValueError:
        seed = DEFAULT_SEED
    os.chdir(VERIF)
    if os.environ.get("PYTHONHASHSEED") != "0":
        env = dict(os.environ, PYTHONHASHSEED="0")
        env["PYTHONPATH"] = VERIF + os.pathsep + env.get("PYTHONPATH", "")
        os.execve(PY, [PY, "-m", "provsim.check", prop, tier], env)
    from . import boot  # noqa: F401
    from .oracles import get_oracle

    cls = get_oracle(prop)
    custom = getattr(cls, "custom_check", None)
    try:
        if custom is not None:
            return custom(tier, seed)
        return run_check(prop, tier, seed)
    except SystemExit:
        raise
    except Exception:
        import traceback

        print("HARNESS-ERROR: %s" % traceback.format_exc()[-3000:])
        return 2


if __name__ == "__main__":
    sys.exit(main(sys.argv[1:]))
