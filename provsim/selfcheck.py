"""setup_cmd: import smoke test (pure Python, nothing to build)."""
import sys


def main():
    from . import boot  # noqa: F401
    from . import core, world, ops, observe, seams  # noqa: F401
    from .oracles import CLAIMED, get_oracle
    import lxml, rdflib, networkx, pydot, dateutil  # noqa: F401

    n = 0
    for p in CLAIMED:
        try:
            get_oracle(p)
            n += 1
        except ImportError:
            pass
    print("provsim ok: prov from %s, %d oracles importable" % (boot.SRC, n))
    return 0


if __name__ == "__main__":
    sys.exit(main())
