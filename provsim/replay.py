"""Replay one recorded history in a fresh interpreter.

usage: python -m provsim.replay FILE
Re-executes with the recorded PYTHONHASHSEED (re-exec if needed) and prints the
violation signature; exit 1 if the recorded violation reproduces, 0 if it does not.
"""
import json
import os
import sys


def session(rec):
    """Re-execute every run of the worker session up to the failing seed, in order."""
    from . import boot  # noqa: F401
    from . import core
    from .oracles import get_oracle
    import json as _json

    cls = get_oracle(rec["property"])
    ss = rec["session"]
    os.environ["PROVSIM_TIER"] = ss.get("tier", "quick")  # history lengths depend on the tier
    res = None
    for k in range(ss["k"] + 1):
        res = core.simulate(cls, ss["seed0"] + ss["offset"] + k * ss["stride"])
    v = res.violation
    if v is None:
        print("REPLAY(session) property=%s seed=%s: no violation" % (rec["property"], rec["seed"]))
        return 0
    same = v.signature == rec["signature"]
    print("REPLAY(session of %d runs) property=%s seed=%s signature=%s same_as_recorded=%s" % (
        ss["k"] + 1, rec["property"], rec["seed"], _json.dumps(v.signature), same))
    return 1


def main(argv):
    want_session = False
    if argv and argv[0] == "--session":
        want_session = True
        argv = argv[1:]
    path = argv[0]
    with open(path) as f:
        rec = json.load(f)
    want = str(rec.get("hashseed", "0"))
    if os.environ.get("PYTHONHASHSEED") != want and want != "random":
        env = dict(os.environ, PYTHONHASHSEED=want)
        os.execve(sys.executable, [sys.executable, "-m", "provsim.replay"] + (["--session"] if want_session else []) + [path], env)
    if want_session:
        return session(rec)
    from . import boot  # noqa: F401
    from . import core
    from .oracles import get_oracle

    prop = rec["property"]
    if rec.get("kind") == "custom":
        mod = __import__("provsim.oracles.%s" % prop.lower(), fromlist=["replay_custom"])
        return mod.replay_custom(rec)
    cls = get_oracle(prop)
    res = core.replay(cls, rec["cfg"], rec["ops"], rec["seed"])
    if res.violation is None:
        print("REPLAY property=%s seed=%s: no violation (recorded %s)" % (prop, rec["seed"], rec["signature"]))
        return 0
    v = res.violation
    same = v.signature == rec["signature"]
    print("REPLAY property=%s seed=%s step=%s signature=%s same_as_recorded=%s" % (
        prop, rec["seed"], v.step, json.dumps(v.signature), same))
    print(json.dumps(v.detail, indent=1, default=repr)[:4000])
    return 1


if __name__ == "__main__":
    sys.exit(main(sys.argv[1:]))
