"""Small reference models: pure functions over library objects read through public
accessors, producing strict snapshots to compare with what the library returned."""
from . import boot  # noqa: F401
from . import observe
from . import pools

FORMAL_URIS = set()
for _k, (_t, _formals, _el) in pools.KINDS.items():
    for _f in _formals:
        FORMAL_URIS.add(pools.PROV_URI + _f)


class Conflict(Exception):
    pass


def _same_py(a, b):
    """Would a Python set treat the two attribute values as one element?  Decided by the
    reference, not by the library's own __eq__/__hash__: numbers by Python numeric equality
    (1 == True == 1.0), datetimes by instant, everything else by the strict kind-aware key."""
    import datetime as _dt

    num = (bool, int, float)
    if isinstance(a, num) and isinstance(b, num):
        return a == b
    if isinstance(a, _dt.datetime) and isinstance(b, _dt.datetime):
        try:
            return a == b
        except TypeError:
            return False
    return observe.vkey(a) == observe.vkey(b)


def _differ(a, b):
    return not _same_py(a, b)


def ref_unify_records(recs):
    """Expected strict snapshots of ``unified()`` for one container's record list.

    Groups by (identifier URI, record type); union of attributes with Python set
    semantics; formal (PROV single-valued) attributes must agree, else Conflict.
    First-occurrence order; anonymous records untouched.
    """
    groups = {}
    order = []
    for r in recs:
        if r.identifier is None:
            order.append(("anon", observe.rec_obs(r)))
            continue
        key = (r.identifier.uri, r.get_type().uri)
        if key not in groups:
            groups[key] = {}
            order.append(("grp", key))
        g = groups[key]
        for a, v in r.attributes:
            vals = g.setdefault(a.uri, [])
            if a.uri in FORMAL_URIS and vals:
                if _differ(v, vals[0]):
                    raise Conflict("%s %s: %r vs %r" % (key, a.uri, vals[0], v))
                continue
            if not any(_same_py(v, x) for x in vals):
                vals.append(v)
    out = []
    for kind, x in order:
        if kind == "anon":
            out.append(x)
        else:
            attrs = sorted(
                ((au, observe.vkey(v)) for au, vals in groups[x].items() for v in vals), key=repr
            )
            out.append((x[1], x[0], tuple(attrs)))
    return tuple(out)


def ref_unify(c):
    """Expected (records, bundles) snapshot of c.unified(); raises Conflict."""
    recs = ref_unify_records(c.get_records())
    bundles = []
    if c.is_document():
        for b in c.bundles:
            bundles.append((observe._uri(b.identifier), ref_unify_records(b.get_records())))
    return (recs, tuple(bundles))


def ref_flatten(d):
    """Expected multiset of records of d.flattened()."""
    recs = list(observe.cont_obs(d))
    for b in d.bundles:
        recs.extend(observe.cont_obs(b))
    return observe.multiset(recs)


def ref_eq_container(a, b):
    """Content equivalence of two containers: same *set* of records, Python numeric
    equality for values (1 == True == 1.0), everything else strict."""
    return _lenient_set(a) == _lenient_set(b)


def lenient_value(v):
    """Key of one attribute value under the equality the property allows: Python numeric
    equality (1 == True == 1.0) and datetime equality (same instant); all else strict."""
    import datetime as _dt

    if isinstance(v, (bool, int, float)):
        return ("num", v)
    if isinstance(v, _dt.datetime):
        return ("dt", v)
    return observe.vkey(v)


def lenient_rec(r):
    return (
        observe._uri(r.get_type()),
        observe._uri(r.identifier),
        frozenset((observe._uri(a), lenient_value(v)) for a, v in r.attributes),
    )


def _lenient_set(c):
    return frozenset(lenient_rec(r) for r in c.get_records())


def ref_eq_document(a, b):
    if not ref_eq_container(a, b):
        return False
    ba = {observe._uri(x.identifier): x for x in a.bundles}
    bb = {observe._uri(x.identifier): x for x in b.bundles}
    if set(ba) != set(bb):
        return False
    return all(ref_eq_container(ba[k], bb[k]) for k in ba)
