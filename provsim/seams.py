"""Seams for hidden inputs: blank-node randomness, wall clock, temp names, caches.

All are installed by the harness by replacing module attributes; nothing in /repo
is changed.  ``install(seed)`` makes one run a pure function of its seed.
"""
import datetime
import random
import uuid

from . import boot  # noqa: F401

import dateutil.parser
import rdflib.term
import rdflib.plugins.parsers.notation3 as _n3
import tempfile


class SimClock(object):
    """The only clock the library can see (through dateutil's ``default=``)."""

    ORIGIN = datetime.datetime(2021, 3, 14, 15, 9, 26)

    def __init__(self):
        self.now = self.ORIGIN
        self.span = 0.0
        self.reads = 0

    def reset(self, origin=None):
        self.now = origin or self.ORIGIN
        self.span = 0.0
        self.reads = 0

    def jump(self, seconds):
        try:
            self.now = self.now + datetime.timedelta(seconds=seconds)
        except OverflowError:
            pass
        self.span += abs(seconds)

    def midnight(self):
        self.reads += 1
        return self.now.replace(hour=0, minute=0, second=0, microsecond=0)


CLOCK = SimClock()

_real_parse = dateutil.parser.parse
_real_uuid4 = rdflib.term.uuid4
_real_n3_uuid4 = _n3.uuid4
_real_candidates = tempfile._get_candidate_names
_state = {"rng": None, "uuid_calls": 0, "installed": False}


def _sim_parse(timestr, parserinfo=None, **kwargs):
    if "default" not in kwargs:
        kwargs["default"] = CLOCK.midnight()
    return _real_parse(timestr, parserinfo, **kwargs)


def _sim_uuid4():
    _state["uuid_calls"] += 1
    return uuid.UUID(int=_state["rng"].getrandbits(128), version=4)


class _Names(object):
    def __init__(self):
        self.n = 0

    def __iter__(self):
        return self

    def __next__(self):
        self.n += 1
        return "sim%06d" % self.n


_names = _Names()


def install(seed, clock_origin=None):
    """Install all seams; derive every hidden input from ``seed``."""
    _state["rng"] = random.Random("uuid4:%d" % seed)
    _state["uuid_calls"] = 0
    CLOCK.reset(clock_origin)
    _names.n = 0
    dateutil.parser.parse = _sim_parse
    rdflib.term.uuid4 = _sim_uuid4
    _n3.uuid4 = _sim_uuid4  # the N3/TriG parser names parsed blank nodes from its own import
    tempfile._get_candidate_names = lambda: _names
    _state["installed"] = True


def reseed_uuid(seed):
    """Restart the blank-node id stream (so that two RDF exports are byte-identical)."""
    _state["rng"] = random.Random("uuid4:%d" % seed)


def uninstall():
    dateutil.parser.parse = _real_parse
    rdflib.term.uuid4 = _real_uuid4
    _n3.uuid4 = _real_n3_uuid4
    tempfile._get_candidate_names = _real_candidates
    _state["installed"] = False


def uuid_calls():
    return _state["uuid_calls"]


def restart_lite():
    """Forget process-global caches the way a fresh reader process would."""
    from prov import serializers

    serializers.Registry.serializers = None
