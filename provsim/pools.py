"""Small pools of URIs, prefixes, local names and values.

Small on purpose: clashes and identifier reuse must be the common case.
Everything here is plain data (JSON-able) - no library objects.
"""

# Namespace URIs: three are prefixes of each other, one contains '#', one is a urn.
URIS = [
    "http://ex.org/a/",
    "http://ex.org/a/b/",
    "http://ex.org/",
    "http://ex.org/c#",
    "urn:x:",
    "http://other.org/ns#",
    "http://www.w3.org/ns/prov#",  # the PROV namespace itself, registered under a user prefix
]

# Prefixes: ordinary, look-like-generated (ex_1, dn) and reserved ones.
PREFIXES = ["ex", "o", "ex_1", "dn", "p2", "prov", "xsd"]
PLAIN_PREFIXES = ["ex", "o", "ex_1", "dn", "p2"]

# Local names.  All are NCName-safe except the ones in LOCALS_ODD.
LOCALS = ["x", "y", "e1", "a1", "b", "c", "y-z", "p.q", "agent", "time", "entity"]  # two look like PROV attribute names
LOCALS_ODD = ["n/1", "1st", "q%41", "r;2", "k=v"]  # incl. characters PROV-N would have to escape

# A local part that contains a registered namespace URI (F13 trigger); only
# ever used in the 'full' spelling under "urn:x:".
LOCAL_WITH_URI = "aurn:x:b"

PROV_URI = "http://www.w3.org/ns/prov#"
XSD_URI = "http://www.w3.org/2001/XMLSchema#"
XSI_URI = "http://www.w3.org/2001/XMLSchema-instance"
RESERVED = {"prov": PROV_URI, "xsd": XSD_URI, "xsi": XSI_URI}

# The 18 record kinds: name -> (type local name, [formal attribute local names], factory, element?)
KINDS = {
    "entity": ("Entity", [], True),
    "activity": ("Activity", ["startTime", "endTime"], True),
    "agent": ("Agent", [], True),
    "generation": ("Generation", ["entity", "activity", "time"], False),
    "usage": ("Usage", ["activity", "entity", "time"], False),
    "communication": ("Communication", ["informed", "informant"], False),
    "start": ("Start", ["activity", "trigger", "starter", "time"], False),
    "end": ("End", ["activity", "trigger", "ender", "time"], False),
    "invalidation": ("Invalidation", ["entity", "activity", "time"], False),
    "derivation": (
        "Derivation",
        ["generatedEntity", "usedEntity", "activity", "generation", "usage"],
        False,
    ),
    "attribution": ("Attribution", ["entity", "agent"], False),
    "association": ("Association", ["activity", "agent", "plan"], False),
    "delegation": ("Delegation", ["delegate", "responsible", "activity"], False),
    "influence": ("Influence", ["influencee", "influencer"], False),
    "specialization": ("Specialization", ["specificEntity", "generalEntity"], False),
    "alternate": ("Alternate", ["alternate1", "alternate2"], False),
    "mention": ("Mention", ["specificEntity", "generalEntity", "bundle"], False),
    "membership": ("Membership", ["collection", "entity"], False),
}
KIND_NAMES = list(KINDS)
ELEMENT_KINDS = [k for k in KIND_NAMES if KINDS[k][2]]
RELATION_KINDS = [k for k in KIND_NAMES if not KINDS[k][2]]
TIME_FORMALS = {"time", "startTime", "endTime"}

# factory method per kind and its positional parameter order (formal names),
# whether it accepts identifier= and other_attributes=
FACTORIES = {
    "entity": ("entity", [], True, True),
    "activity": ("activity", ["startTime", "endTime"], True, True),
    "agent": ("agent", [], True, True),
    "generation": ("generation", ["entity", "activity", "time"], True, True),
    "usage": ("usage", ["activity", "entity", "time"], True, True),
    "communication": ("communication", ["informed", "informant"], True, True),
    "start": ("start", ["activity", "trigger", "starter", "time"], True, True),
    "end": ("end", ["activity", "trigger", "ender", "time"], True, True),
    "invalidation": ("invalidation", ["entity", "activity", "time"], True, True),
    "derivation": (
        "derivation",
        ["generatedEntity", "usedEntity", "activity", "generation", "usage"],
        True,
        True,
    ),
    "attribution": ("attribution", ["entity", "agent"], True, True),
    "association": ("association", ["activity", "agent", "plan"], True, True),
    "delegation": ("delegation", ["delegate", "responsible", "activity"], True, True),
    "influence": ("influence", ["influencee", "influencer"], True, True),
    "specialization": ("specialization", ["specificEntity", "generalEntity"], False, False),
    "alternate": ("alternate", ["alternate1", "alternate2"], False, False),
    "mention": ("mention", ["specificEntity", "generalEntity", "bundle"], False, False),
    "membership": ("membership", ["collection", "entity"], False, False),
}

# element convenience methods: kind of the relation -> (kind of the owner element,
# method name, parameter order after self (formal names), has attributes=)
CONVENIENCE = {
    "generation": ("entity", "wasGeneratedBy", ["activity", "time"], True),
    "invalidation": ("entity", "wasInvalidatedBy", ["activity", "time"], True),
    "derivation": (
        "entity",
        "wasDerivedFrom",
        ["usedEntity", "activity", "generation", "usage"],
        True,
    ),
    "attribution": ("entity", "wasAttributedTo", ["agent"], True),
    "alternate": ("entity", "alternateOf", ["alternate2"], False),
    "specialization": ("entity", "specializationOf", ["generalEntity"], False),
    "membership": ("entity", "hadMember", ["entity"], False),
    "usage": ("activity", "used", ["entity", "time"], True),
    "communication": ("activity", "wasInformedBy", ["informant"], True),
    "start": ("activity", "wasStartedBy", ["trigger", "starter", "time"], True),
    "end": ("activity", "wasEndedBy", ["trigger", "ender", "time"], True),
    "association": ("activity", "wasAssociatedWith", ["agent", "plan"], True),
    "delegation": ("agent", "actedOnBehalfOf", ["responsible", "activity"], True),
}

# Strings: quotes, newlines, backslashes, empties, non-ASCII, markup, look-alikes.
STRINGS = [
    "",
    "a",
    "hello world",
    'say "hi"',
    "it's",
    "line1\nline2",
    "back\\slash",
    "tab\there",
    "café 中文 \U0001f600",
    "<b>&amp;</b>",
    "1",
    "true",
    "prov:x",
    "ex:x",
    "2012-01-01T00:00:00",
    " lead and trail ",
    "http://ex.org/a/x",
    "]]>",
    "é",
    "inf",   # look like special float spellings / XSD spellings of them
    "NaN",
]
INTS = [0, 1, -1, 42, 2**31, -(2**31) - 1, 2**63, 2**70 + 1, -(10**30)]
# finite only: C01's quantifier says "finite floats" (a writer refusing Infinity would be within its rights)
FLOATS = [0.0, 1.0, -1.5, 0.1, 1e100, 2.0**70, 1e-7, 3.141592653589793, -0.0]
DATETIMES = [
    "2012-12-03T21:08:16",
    "2012-12-03T21:08:16.686000",
    "2012-12-03T21:08:16+01:00",
    "2012-12-03T21:08:16.000001-05:30",
    "0001-01-01T00:00:00",
    "9999-12-31T23:59:59.999999",
    "2000-02-29T12:00:00+00:00",
    "1970-01-01T00:00:00",
]
LANGS = ["en", "fr", "en-GB", "es-419", "de-CH-1901"]
VALUE_URIS = ["http://ex.org/a/x", "urn:x:thing", "http://other.org/ns#t", "mailto:a@b.c",
              "http://www.w3.org/ns/prov#", "HTTP://EX.org/A?"]  # empty fragment / empty query, upper-case scheme
# foreign (not natively supported) datatypes, as (uri, local)
FOREIGN_DATATYPES = [
    (XSD_URI, "integer"),
    (XSD_URI, "decimal"),
    (XSD_URI, "float"),
    (XSD_URI, "date"),
    (XSD_URI, "gYear"),
    (XSD_URI, "hexBinary"),
    ("http://ex.org/a/", "T"),
    ("http://other.org/ns#", "dt"),
    ("http://ex.org/a/", "dt"),
    ("http://other.org/ns#", "T"),
    ("http://ex.org/c#", "T"),
    (XSD_URI, "QName"),  # a literal that merely *looks* like a qualified name
]
# natively supported datatypes with valid lexical forms and the Python value they denote
NATIVE_LITERALS = [
    ("int", "42", ["i", 42]),
    ("int", "-7", ["i", -7]),
    ("long", "9223372036854775808", ["i", 2**63]),
    ("double", "1.5", ["f", "1.5"]),
    ("double", "1e100", ["f", "1e+100"]),
    ("boolean", "true", ["b", True]),
    ("boolean", "false", ["b", False]),
    ("boolean", "1", ["b", True]),
    ("boolean", "0", ["b", False]),
    ("string", "plain", ["s", "plain"]),
    ("string", "", ["s", ""]),
    ("anyURI", "http://ex.org/a/x", ["uri", "http://ex.org/a/x"]),
    ("dateTime", "2012-12-03T21:08:16", ["dt", "2012-12-03T21:08:16"]),
    ("dateTime", "2012-12-03T21:08:16+01:00", ["dt", "2012-12-03T21:08:16+01:00"]),
]

# valid xsd:dateTime lexical forms that have no Python datetime: they stay typed literals
UNPYTHONABLE_DATETIMES = ["12000-01-01T00:00:00", "2020-12-31T24:00:00"]

PROV_TYPES = ["Revision", "Quotation", "PrimarySource", "Person", "Organization",
              "SoftwareAgent", "Plan", "Collection", "EmptyCollection", "Bundle",
              "Person", "Plan", "Collection", "Organization",
              "Entity", "Agent", "Activity"]  # base record kinds too (rare)
PROV_EXTRA_ATTRS = ["type", "label", "value", "location", "role"]
