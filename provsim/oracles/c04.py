"""C04 - document equality is an equivalence that coincides with content equivalence.

Each run builds a base document by a seeded history, then partners (content-preserving
rebuilds, single-edit rebuilds, round trips, unrelated documents) and compares all of
them pairwise in both argument orders.  The same run seeds are executed under several
PYTHONHASHSEED classes and the verdict logs must be identical (driver: cross_hash).
"""
import hashlib
import json

from .. import boot  # noqa: F401
from ..core import Oracle, Violation
from .. import observe, refmodel, rebuild
from prov.model import ProvDocument


class C04(Oracle):
    # reach probes that must not be stuck at zero (else the workload is not reaching what
    # the design says it reaches): the check then exits 2
    required_probes = {"quick": ['equal_pairs', 'unequal_pairs', 'content_preserving_partner', 'prov_compare_equal', 'prov_compare_different', 'edit_swap_type', 'edit_toggle_id'], "thorough": ['equal_pairs', 'unequal_pairs', 'content_preserving_partner', 'prov_compare_equal', 'prov_compare_different', 'edit_swap_type', 'edit_toggle_id']}
    prop = "C04"
    cross_hash = True

    def swarm(self, rng):
        w = {"doc": 1, "bundle": 3, "add_ns": 4, "set_default": rng.choice([0, 1]), "rec": 20,
             "add_attrs": 3, "get_record": rng.choice([0, 2]), "get_records": rng.choice([0, 1]),
             "add_type": rng.choice([0, 1]), "peek": rng.choice([0, 3]), "export": rng.choice([0, 2]),
             "get_record_absent": rng.choice([0, 1])}
        prof = {
            "w": w,
            "max_docs": rng.choice([1, 2]),
            "p_reuse_id": rng.choice([0.2, 0.5]),
            "p_anon": rng.choice([0.3, 0.6, 0.9]),
            "p_clash": rng.choice([0.1, 0.4]),
            "p_extra": rng.choice([0.3, 0.7]),
            "multi_value": rng.choice([0.2, 0.6]),
            "fmt": rng.choice(["json", "xml"]),
        }
        steps, partners = rng.randrange(6, 30), rng.randrange(5, 10)
        return {"profile": prof, "steps": steps, "partners": partners, "total_steps": steps + partners + 64,
                "cli_pairs": rng.choice([0, 0, 2])}

    def next_op(self, gen, world, i):
        nbuild = self.cfg["steps"]
        rng = gen.rng
        if i < nbuild or not gen.docs:
            return gen.next_op(world)
        st = self.__dict__.setdefault("_plan", {"partners": [], "phase": 0, "pairs": None})
        base = gen.docs[0]
        if len(st["partners"]) < self.cfg["partners"]:
            h = gen.fresh("P")
            k = rng.randrange(6)
            if k == 0:
                op = ["rebuild", h, base, {"perm": rng.randrange(10**6), "prefix": rng.choice(["orig", "alt"]),
                                           "dup": None, "via": rng.choice(["new_record", "records_ctor"]), "edit": None}]
            elif k == 1:
                op = ["rebuild", h, base, {"perm": rng.randrange(10**6), "prefix": "alt", "dup": rng.randrange(1000),
                                           "via": "new_record", "edit": None}]
            elif k == 2 and rng.random() < 0.5:
                op = ["roundtrip", h, base, self.cfg["profile"]["fmt"], {}, "str", "content"]
            else:
                src = base
                if st["partners"] and rng.random() < 0.3:
                    src = rng.choice(st["partners"])  # an edit of an edit: farther partners
                op = ["rebuild", h, src, {"perm": rng.choice([None, rng.randrange(10**6)]),
                                          "prefix": rng.choice(["orig", "alt"]), "dup": None, "via": "new_record",
                                          "edit": [rng.choice(rebuild.EDIT_KINDS), rng.randrange(10**4)]}]
            st["partners"].append(h)
            return op
        if st["pairs"] is None:
            hs = list(gen.docs) + st["partners"]
            st["pairs"] = [(a, b) for ai, a in enumerate(hs) for b in hs[ai:]]
            rng.shuffle(st["pairs"])
            st["pairs"] = st["pairs"][:45]
            st["recpairs"] = 6
        if st["pairs"]:
            if len(st["pairs"]) == 20 and not st.get("mutated"):
                # touch a record that has already been hashed by the comparisons so far ...
                st["mutated"] = rng.randrange(12)
                return ["add_type", ["n", base, st["mutated"]],
                        ["qn", "prov", "http://www.w3.org/ns/prov#", rng.choice(["Plan", "Person", "Collection"])]]
            if len(st["pairs"]) == 19 and st.get("mutated") is not None and not st.get("twin"):
                # ... and compare it with a twin built from the document as it is now
                st["twin"] = gen.fresh("P")
                st["partners"].append(st["twin"])
                return ["rebuild", st["twin"], base, {"perm": None, "prefix": "orig", "dup": None,
                                                     "via": "new_record", "edit": None}]
            if len(st["pairs"]) == 18 and st.get("twin"):
                st["pairs"].pop()
                return ["req", ["n", base, st["mutated"]], ["n", st["twin"], st["mutated"]]]
            if len(st["pairs"]) == 17 and st.get("twin"):
                st["pairs"].pop()
                return ["eq", base, st["twin"]]
            a, b = st["pairs"].pop()
            return ["eq", a, b]
        if st.get("cli", 0) < self.cfg.get("cli_pairs", 0):
            st["cli"] = st.get("cli", 0) + 1
            hs = [h for h in list(gen.docs) + st["partners"]]
            return ["compare_cli", rng.choice(hs), rng.choice(hs), rng.choice(["json", "xml"]),
                    rng.choice(["json", "xml"])]
        if st["recpairs"] > 0:
            st["recpairs"] -= 1
            hs = list(gen.docs) + st["partners"]
            a, b = rng.choice(hs), rng.choice(hs)
            idx = rng.randrange(12)
            return ["req", ["n", a, idx], ["n", b, idx if rng.random() < 0.7 else rng.randrange(12)]]
        return None

    def make_gen(self, rng):
        g = Oracle.make_gen(self, rng)
        return g

    def nontrivial(self, w):
        return self.counters.get("comparisons_nonempty", 0) > 0

    def __init__(self, cfg=None):
        Oracle.__init__(self, cfg)
        if cfg is not None:
            cfg = dict(cfg)
            self.cfg = cfg
        self.verdicts = []
        self.matrix = {}

    def execute_budget(self):
        return self.cfg["steps"] + self.cfg["partners"] + 60

    def after(self, w, i, op, out):
        k = op[0]
        if k == "roundtrip":
            # round-trip partners depend on the serialisers (C01/C02's business, possibly
            # hash-order dependent): judged by every law, excluded from the cross-hash log
            self.__dict__.setdefault("rt", set()).add(op[1])
        if k == "rebuild" and op[2] in self.__dict__.get("rt", ()):
            self.rt.add(op[1])
        if k == "rebuild" and out.status == "ok":
            e = out.info.get("edit")
            if e:
                self.probe("edit_" + e.split(":")[0])
            if op[3].get("edit") is None:
                self.probe("content_preserving_partner")
        if k in ("add_type", "add_attrs", "rec", "set_time") and self.matrix:
            # a document changed after it was compared: earlier verdicts about it are history
            self.matrix = {}
        if k == "eq" and out.status != "skip":
            self.chk_eq(w, op, out)
        elif k == "req" and out.status != "skip":
            self.chk_req(w, op, out)
        elif k == "compare_cli" and out.status == "ok":
            code, da, db = out.result
            ref = refmodel.ref_eq_document(da, db)
            self.count("prov_compare_runs")
            self.probe("prov_compare_equal" if ref else "prov_compare_different")
            if (code == 0) != ref:
                raise Violation("C04", "prov-compare", "exit-status",
                                {"operation": op, "exit_status": code, "reference_equal": ref})

    def final(self, w):
        # transitivity over every triple of compared documents
        hs = sorted({h for pair in self.matrix for h in pair})
        for a in hs:
            for b in hs:
                for c in hs:
                    ab, bc, ac = self.matrix.get((a, b)), self.matrix.get((b, c)), self.matrix.get((a, c))
                    if ab and bc and ac is False:
                        raise Violation("C04", "transitive", "documents", {"a": a, "b": b, "c": c})
                    if ab is not None and bc is not None and ac is not None:
                        self.count("triples")
        self.outcome_key = hashlib.sha1(json.dumps(self.verdicts).encode()).hexdigest()

    def chk_eq(self, w, op, out):
        a, b = w.cont(op[1]), w.cont(op[2])
        if out.status == "exc":
            raise Violation("C04", "total", "comparison-raised", {"operation": op, "error": repr(out.exc)})
        ab, ba, nab, nba = out.result
        if not ({op[1], op[2]} & self.__dict__.get("rt", set())):
            self.verdicts.append([op[1], op[2], bool(ab), bool(ba), bool(nab), bool(nba)])
        self.count("comparisons")
        if len(a.get_records()) + len(b.get_records()) > 0:
            self.count("comparisons_nonempty")
        detail = {"left": op[1], "right": op[2], "a==b": ab, "b==a": ba, "a!=b": nab, "b!=a": nba}
        if a is b and not ab:
            raise Violation("C04", "reflexive", "document", detail)
        if ab != ba:
            raise Violation("C04", "symmetric", "document", dict(detail, diff=self.diff(a, b)), self.facts(a, b))
        if nab != (not ab) or nba != (not ba):
            raise Violation("C04", "ne-agrees", "document", detail)
        ref = refmodel.ref_eq_document(a, b) if (a.is_document() and b.is_document()) else refmodel.ref_eq_container(a, b)
        if ref:
            self.probe("equal_pairs")
        else:
            self.probe("unequal_pairs")
        if bool(ab) != ref:
            raise Violation(
                "C04", "content-equivalence", "equal-but-different" if ab else "different-but-equal",
                dict(detail, reference=ref, diff=self.diff(a, b)), self.facts(a, b))
        self.matrix[(op[1], op[2])] = bool(ab)
        self.matrix[(op[2], op[1])] = bool(ba)

    def chk_req(self, w, op, out):
        if out.status == "exc":
            raise Violation("C04", "total", "record-comparison-raised", {"operation": op, "error": repr(out.exc)})
        ra, rb = w.rec(op[1]), w.rec(op[2])
        ab, ba, nab, heq = out.result
        if not ({op[1][1], op[2][1]} & self.__dict__.get("rt", set())):
            self.verdicts.append(["r", bool(ab), bool(ba), bool(nab), bool(heq)])
        self.count("record_comparisons")
        detail = {"a": repr(observe.rec_obs(ra)), "b": repr(observe.rec_obs(rb)),
                  "a==b": ab, "b==a": ba, "a!=b": nab, "hash_equal": heq}
        if ab != ba:
            raise Violation("C04", "symmetric", "record", detail)
        if nab != (not ab):
            raise Violation("C04", "ne-agrees", "record", detail)
        ref = refmodel.lenient_rec(ra) == refmodel.lenient_rec(rb)
        if bool(ab) != ref:
            raise Violation("C04", "content-equivalence", "record-equal-but-different" if ab else "record-different-but-equal", detail)
        if ab and not heq:
            raise Violation("C04", "hash", "equal-records-different-hash", detail)

    @staticmethod
    def diff(a, b):
        d = {"records": observe.diff_multisets(observe.cont_obs(a), observe.cont_obs(b), 2)}
        if a.is_document() and b.is_document():
            d["bundles"] = {"left": [observe._uri(x.identifier) for x in a.bundles],
                            "right": [observe._uri(x.identifier) for x in b.bundles]}
        return d

    @staticmethod
    def facts(a, b):
        return {"nrec": [len(a.get_records()), len(b.get_records())]}
