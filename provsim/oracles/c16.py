"""C16 - all source/destination kinds agree, and prov.read detects the format.

Per sampled document state (built by a seeded history inside the intersection of the
C01/C02/C07 spaces, with non-ASCII content) the complete product
  formats x destination kinds x source kinds x {explicit format, auto-detection}
is enumerated over stdlib streams, real files in a private directory and simulated
streams (chunked reads, non-seekable sources), under a simulated platform default text
encoding.  Profile B adds write errors on destination streams: the call must raise.
"""
import hashlib
import io
import json
import os
import random
import time
import traceback

from .. import boot  # noqa: F401
from .. import iosim, observe, seams
from ..core import Oracle, Violation
from ..ops import Gen, DEFAULT_PROFILE, merged
from ..world import World
from .c17 import Sandbox
import prov
from prov.model import ProvDocument

ENCODINGS = ["utf-8", "cp1252", "ascii"]
NONASCII = "café 中文 ✓"


class C16(Oracle):
    prop = "C16"
    rule = ("one evaluation = one cell: a library call serialize(...) / deserialize(...) / prov.read(...) for one "
            "(document state, format, destination or source kind, stream model, platform encoding); per state the "
            "whole kinds product is enumerated; distinct = distinct (state digest, cell label); non-trivial = the "
            "state has records and non-ASCII content and the cell's oracle was evaluated")
    assumptions = [
        "stream stubs honour the io ABC contracts; duck-typed 'streams' outside them are out of scope",
        "the platform default encoding is emulated at the open() boundary for text-mode opens that name none",
        "XML destinations are compared by C14N, RDF by restarting the blank-node id stream before each export",
    ]

    @staticmethod
    def custom_check(tier, seed):
        return run(tier, seed)


def build_doc(seed):
    rng = random.Random("c16:%d" % seed)
    prof = merged(DEFAULT_PROFILE, **{
        "w": {"doc": 0, "bundle": rng.choice([0, 2]), "add_ns": 4, "set_default": 0, "rec": 20, "add_attrs": 3},
        "max_docs": 1, "p_extra": 0.7, "p_reuse_id": 0.0, "p_anon": rng.choice([0.0, 0.4]),
        "defaults": False, "bundle_ns": False, "bundle_defaults": False,
        "name_kinds": {"nsobj": 6, "pl": 2},
        "formal_as": {"nsobj": 4, "pl": 1, "rec": 2},
        "value_kinds": {"s": 6, "i": 2, "b": 2, "dt": 2, "uri": 1, "qnv": 2, "lang": 3},
        "mask": "first2", "mention": False, "attr_prov": 0.2, "p_clash": 0.0, "rdf_safe": True,
        "kinds": ["entity", "activity", "agent", "generation", "usage", "communication", "start", "end",
                  "invalidation", "derivation", "attribution", "association", "delegation"],
    })
    gen = Gen(rng, prof)
    w = World()
    seams.install(seed)
    w.execute(["doc", "D1"])
    gen._add_doc("D1")
    if rng.random() < 0.04:
        # a document without any record (with or without namespace declarations)
        if rng.random() < 0.5:
            w.execute(["add_ns", "D1", "ex", "http://ex.org/a/", 0])
        return w.containers["D1"]
    # namespaces first so that every name lives under a document-level prefix
    for p, u in (("ex", "http://ex.org/a/"), ("o", "http://other.org/ns#")):
        w.execute(["add_ns", "D1", p, u, 0])
        gen.ns_req["D1"].append((p, u))
        gen.ns_obj["D1"].append((p, u))
    n = rng.choice([3, 8, 20])
    for i in range(n):
        w.execute(gen.next_op(w))
    d = w.containers["D1"]
    d.entity("ex:unicode", {"prov:label": NONASCII, "ex:note": prov.model.Literal(NONASCII, langtag="fr")})
    if rng.random() < 0.12:
        # a large state: outputs of tens of KiB full of multi-byte characters, so that any
        # fixed-size chunking in a writer or reader splits some character
        k = rng.choice([150, 400])
        for i in range(k):
            d.entity("ex:big%d" % i, {"prov:label": NONASCII * (1 + (i + seed) % 3) + "é" * ((i * 7 + seed) % 5)})
    for b in d.bundles:
        if not b.get_records():
            b.entity("ex:filler")
    return d


def c14n(data):
    from lxml import etree
    if isinstance(data, str):
        data = data.encode("utf-8") if not data.startswith("<?xml") else data.encode("ascii", "xmlcharrefreplace")
    return etree.tostring(etree.fromstring(data), method="c14n")


def obs_or_exc(thunk, seed=0):
    seams.reseed_uuid(seed + 1)  # every reader cell sees the same blank-node id stream
    try:
        r = thunk()
    except Exception as e:
        return ("exc", type(e).__name__, str(e)[:200])
    if r is None:
        return ("none",)
    return ("ok", observe.doc_multiset(r))


def run_state(seed, tier):
    d = build_doc(seed)
    rng = random.Random("c16s:%d" % seed)
    enc = ENCODINGS[seed % 3]
    stats = {"cells": 0, "labels": {}, "violations": [], "skipped_formats": {}, "encoding": enc,
             "distinct": [], "nrec": len(d.get_records()) + sum(len(b.get_records()) for b in d.bundles)}
    state_digest = hashlib.sha1(repr(observe.doc_multiset(d)).encode()).hexdigest()[:10]

    def cell(label):
        stats["cells"] += 1
        stats["labels"][label] = stats["labels"].get(label, 0) + 1
        stats["distinct"].append(hashlib.sha1((state_digest + label).encode()).hexdigest()[:12])

    def violate(inv, cause, detail):
        detail = dict(detail, seed=seed, platform_encoding=enc)
        stats["violations"].append({
            "property": "C16", "kind": "custom", "seed": seed, "hashseed": os.environ.get("PYTHONHASHSEED", "0"),
            "signature": ["C16", inv, cause], "detail": detail, "facts": {"encoding": enc, "cause": cause}, "count": 1,
        })

    from .c07 import rdf_ineligible
    rdf_why = rdf_ineligible(d)
    sb = Sandbox()
    try:
        sim = iosim.FsSim(sb.tmp, plan={}, encoding=enc)
        with sim:
            for fmt in ("json", "xml", "rdf", "provn"):
                opts = {}
                # ---------------------------------------------------- destinations
                def export(dest):
                    seams.reseed_uuid(seed)
                    return d.serialize(dest, format=fmt, **opts)

                try:
                    seams.reseed_uuid(seed)
                    s0 = d.serialize(format=fmt, **opts)
                except Exception as e:
                    # the document cannot be written to a string; then no other destination
                    # kind may succeed either (the kinds must agree in failure too)
                    try:
                        t = io.BytesIO()
                        export(t)
                        violate("destinations", "%s-string-raises-but-binary-stream-succeeds" % fmt,
                                {"error": repr(e)[:300], "binary_bytes": len(t.getvalue())})
                    except Exception:
                        stats["skipped_formats"][fmt] = type(e).__name__
                    continue
                cell("%s:dest:string" % fmt)
                if not isinstance(s0, str):
                    violate("destinations", "%s-returned-not-str" % fmt, {"type": type(s0).__name__})
                    continue
                b0 = s0.encode("utf-8")
                dests = {}
                pth = os.path.join(sb.root, "päth." + fmt)
                try:
                    t = io.StringIO(); export(t); dests["StringIO"] = t.getvalue()
                    t = iosim.SimTextStream(); export(t); dests["SimTextStream"] = t.value()
                    # a text stream that *says* it is not UTF-8: the library hands it text,
                    # what bytes that becomes is the stream's business
                    t = iosim.SimTextStream(); t.encoding_name = "latin-1"; export(t)
                    dests["SimTextStream-latin1"] = t.value()
                    try:
                        s0.encode("cp1252")
                        cp_ok = True
                    except UnicodeError:
                        cp_ok = False
                    if cp_ok:
                        with open(os.path.join(sb.root, "c." + fmt), "w", encoding="cp1252", newline="") as f:
                            export(f)
                        with iosim.real_open(os.path.join(sb.root, "c." + fmt), "rb") as f:
                            dests["file-w-cp1252"] = f.read().decode("cp1252")
                    t = io.BytesIO(); export(t); dests["BytesIO"] = t.getvalue()
                    t = iosim.SimBinaryStream(); export(t); dests["SimBinaryStream"] = t.value()
                    with open(os.path.join(sb.root, "t." + fmt), "w", encoding="utf-8") as f:
                        export(f)
                    with iosim.real_open(os.path.join(sb.root, "t." + fmt), "rb") as f:
                        dests["file-w"] = f.read().decode("utf-8")
                    # a text file the caller has already written to (text still pending in
                    # the wrapper), and one in an encoding that is not UTF-8 at all
                    header = "# written by the caller before the document\n"
                    with open(os.path.join(sb.root, "h." + fmt), "w", encoding="utf-8", newline="") as f:
                        f.write(header)
                        export(f)
                    with iosim.real_open(os.path.join(sb.root, "h." + fmt), "rb") as f:
                        hdata = f.read().decode("utf-8")
                    if not hdata.startswith(header):
                        violate("destinations", "%s-text-file-caller-text-displaced" % fmt,
                                {"head": hdata[:120]})
                    else:
                        dests["file-w-after-header"] = hdata[len(header):]
                    with open(os.path.join(sb.root, "u." + fmt), "w", encoding="utf-16", newline="") as f:
                        export(f)
                    with iosim.real_open(os.path.join(sb.root, "u." + fmt), "rb") as f:
                        dests["file-w-utf16"] = f.read().decode("utf-16")
                    with open(os.path.join(sb.root, "b." + fmt), "wb") as f:
                        export(f)
                    with iosim.real_open(os.path.join(sb.root, "b." + fmt), "rb") as f:
                        dests["file-wb"] = f.read()
                    # the path already holds something longer: the call must replace, not overlay
                    with iosim.real_open(pth, "wb") as f:
                        f.write(b"x" * (len(b0) * 2 + 1000))
                    export(pth)
                    with iosim.real_open(pth, "rb") as f:
                        dests["path"] = f.read()
                except Exception as e:
                    violate("destinations", "%s-destination-raises-though-string-succeeds" % fmt,
                            {"error": repr(e)[:300], "done": sorted(dests)})
                    continue
                for kind, data in dests.items():
                    cell("%s:dest:%s" % (fmt, kind))
                    want_text = kind in ("StringIO", "SimTextStream", "file-w", "SimTextStream-latin1", "file-w-cp1252",
                                         "file-w-after-header", "file-w-utf16")
                    if want_text != isinstance(data, str):
                        violate("destinations", "%s-%s-wrong-type" % (fmt, kind), {"type": type(data).__name__})
                        continue
                    if fmt == "xml":
                        try:
                            same = c14n(data) == c14n(s0)
                        except Exception as e:
                            same = False
                    elif want_text:
                        same = data == s0
                    else:
                        same = data == b0
                    if not same and fmt == "rdf":
                        from .c13 import rdf_isomorphic
                        try:
                            same = rdf_isomorphic(data if isinstance(data, str) else data.decode("utf-8"), s0)
                        except Exception:
                            same = False
                    if not same:
                        violate("destinations", "%s-%s-differs-from-string" % (fmt, kind),
                                {"string": s0[:300], "got": (data if isinstance(data, str) else data.decode("utf-8", "replace"))[:300]})
                if fmt == "provn":
                    continue
                # ------------------------------------------------------- sources
                if fmt == "rdf" and rdf_why is not None:
                    # outside C07's space the RDF reader's result depends on blank-node
                    # naming; C16 quantifies over the intersection of the C01/C02/C07 spaces
                    stats["skipped_formats"]["rdf-read-ineligible"] = rdf_why
                    continue
                base = obs_or_exc(lambda: ProvDocument.deserialize(content=s0, format=fmt), seed)
                cell("%s:src:content-str" % fmt)
                if base[0] != "ok":
                    stats["skipped_formats"][fmt + "-read"] = base[1]
                    continue
                bpath = os.path.join(sb.root, "b." + fmt)
                misleading = os.path.join(sb.root, "m-%s.%s" % (fmt, {"json": "xml", "xml": "ttl", "rdf": "json"}[fmt]))
                with iosim.real_open(misleading, "wb") as f:
                    f.write(dests["path"])
                chunk = rng.choice([1, 7, 64, 4096])
                file_bytes = dests["path"]
                file_text = s0 if fmt != "xml" else file_bytes.decode("utf-8")
                sources = {
                    "content-bytes": lambda: ProvDocument.deserialize(content=file_bytes, format=fmt),
                    "StringIO": lambda: ProvDocument.deserialize(source=io.StringIO(file_text), format=fmt),
                    "BytesIO": lambda: ProvDocument.deserialize(source=io.BytesIO(file_bytes), format=fmt),
                    "SimTextStream-chunked": lambda: ProvDocument.deserialize(
                        source=iosim.SimTextStream(file_text, chunk=chunk), format=fmt),
                    "SimTextStream-nonseekable": lambda: ProvDocument.deserialize(
                        source=iosim.SimTextStream(file_text, seekable=False), format=fmt),
                    "SimBinaryStream-chunked": lambda: ProvDocument.deserialize(
                        source=iosim.SimBinaryStream(file_bytes, chunk=chunk), format=fmt),
                    "SimBinaryStream-nonseekable": lambda: ProvDocument.deserialize(
                        source=iosim.SimBinaryStream(file_bytes, seekable=False), format=fmt),
                    "BufferedReader-over-raw-short-reads": lambda: ProvDocument.deserialize(
                        source=io.BufferedReader(iosim.SimRawStream(file_bytes, chunk=chunk)), format=fmt),
                    "path": lambda: ProvDocument.deserialize(source=pth, format=fmt),
                    "path-written-as-text": lambda: ProvDocument.deserialize(
                        source=os.path.join(sb.root, "t." + fmt), format=fmt),
                    "file-rb": lambda: _with(iosim.real_open(bpath, "rb"),
                                             lambda f: ProvDocument.deserialize(source=f, format=fmt)),
                    "file-r-utf8": lambda: _with(iosim.real_open(bpath, "r", encoding="utf-8"),
                                                 lambda f: ProvDocument.deserialize(source=f, format=fmt)),
                    # file-like objects that are not io.IOBase instances
                    "NamedTemporaryFile-rb": lambda: _with(_named_tmp(sb, file_bytes),
                                                           lambda f: ProvDocument.deserialize(source=f, format=fmt)),
                    "read-auto:NamedTemporaryFile-rb": lambda: _with(_named_tmp(sb, file_bytes), lambda f: prov.read(f)),
                    # prov.read with an explicit format
                    "read-fmt:StringIO": lambda: prov.read(io.StringIO(file_text), format=fmt),
                    "read-fmt:BytesIO": lambda: prov.read(io.BytesIO(file_bytes), format=fmt),
                    "read-fmt:path": lambda: prov.read(pth, format=fmt),
                    # prov.read detecting the format
                    "read-auto:StringIO": lambda: prov.read(io.StringIO(file_text)),
                    "read-auto:BytesIO": lambda: prov.read(io.BytesIO(file_bytes)),
                    "read-auto:SimTextStream": lambda: prov.read(iosim.SimTextStream(file_text, chunk=chunk)),
                    "read-auto:SimBinaryStream": lambda: prov.read(iosim.SimBinaryStream(file_bytes, chunk=chunk)),
                    "read-auto:path": lambda: prov.read(pth),
                    # the file name says nothing reliable about the content
                    "read-auto:path-misleading-extension": lambda: prov.read(misleading),
                    "path-misleading-extension": lambda: ProvDocument.deserialize(source=misleading, format=fmt),
                    "read-auto:file-rb": lambda: _with(iosim.real_open(bpath, "rb"), lambda f: prov.read(f)),
                    "read-auto:file-r-utf8": lambda: _with(iosim.real_open(bpath, "r", encoding="utf-8"),
                                                           lambda f: prov.read(f)),
                }
                for kind, thunk in sources.items():
                    cell("%s:src:%s" % (fmt, kind))
                    got = obs_or_exc(thunk, seed)
                    if "misleading-extension" in kind and got[0] == "exc":
                        # a reader that trusts an honest-looking file name and then refuses the
                        # content is not what C16 forbids; silently returning another document is
                        stats["labels"]["misleading-extension-refused"] = stats["labels"].get("misleading-extension-refused", 0) + 1
                        continue
                    if got != base:
                        cause = "%s-%s" % (fmt, kind)
                        if got[0] == "exc":
                            what = {"raised": list(got[1:])}
                        elif got[0] == "none":
                            what = {"returned": None}
                        else:
                            what = {"records": observe.diff_multisets(base[1][0], got[1][0], 2),
                                    "n_expected": len(base[1][0]), "n_got": len(got[1][0])}
                        violate("sources", cause, what)
                # --------------------------------------------- profile B: write faults
                for kind, mk in (("SimTextStream", lambda: iosim.SimTextStream(fail_write_at=0)),
                                 ("SimBinaryStream", lambda: iosim.SimBinaryStream(fail_write_at=0))):
                    cell("%s:fault:write-error:%s" % (fmt, kind))
                    try:
                        d.serialize(mk(), format=fmt)
                        violate("faults", "%s-write-error-swallowed-%s" % (fmt, kind), {})
                    except OSError:
                        pass
                    except Exception as e:
                        pass  # the library may wrap errors
    finally:
        sb.close()
    return stats


class DuckReader(object):
    """The least a caller may pass as a binary source: an object with read()."""

    def __init__(self, data):
        self._data = data
        self._pos = 0

    def read(self, n=-1):
        if n is None or n < 0:
            n = len(self._data) - self._pos
        out = self._data[self._pos:self._pos + n]
        self._pos += len(out)
        return out


def _named_tmp(sb, data):
    import tempfile
    f = tempfile.NamedTemporaryFile(mode="w+b", dir=sb.root)
    f.write(data)
    f.flush()
    f.seek(0)
    return f


def _with(f, fn):
    with f:
        return fn(f)


def _worker(args):
    seed, tier = args
    import faulthandler
    faulthandler.enable()
    try:
        return run_state(seed, tier)
    except Exception:
        return {"harness_error": traceback.format_exc()[-3000:], "seed": seed}


def run(tier, seed):
    from .. import check, known
    from concurrent.futures import ProcessPoolExecutor
    import multiprocessing

    t0 = time.time()
    nq, wq, nt, wt = check.BUDGET["C16"]
    n, wall = (nq, wq) if tier == "quick" else (nt, wt)
    n = int(os.environ.get("PROVSIM_RUNS", n))
    seed0 = seed * 1000003
    agg = {"cells": 0, "labels": {}, "states": 0, "nontrivial_states": 0, "skipped_formats": {}, "encodings": {}}
    distinct = set()
    violations, herrs, samples = [], [], []
    ctx = multiprocessing.get_context("fork")
    with ProcessPoolExecutor(max_workers=check.NPROC, mp_context=ctx) as ex:
        futs = [ex.submit(_worker, (seed0 + i, tier)) for i in range(n)]
        wall = float(os.environ.get("PROVSIM_WALL", wall))
        capped = False
        for f in futs:
            if time.time() - t0 > wall and not capped:
                capped = True  # wall cap reached: everything not yet started is dropped (never a pass/fail)
                for g in reversed(futs):
                    g.cancel()
            if f.cancelled():
                agg["not_run_wall_cap"] = agg.get("not_run_wall_cap", 0) + 1
                continue
            try:
                st = f.result(timeout=max(5.0, wall * 3 - (time.time() - t0)))
            except Exception as e:
                herrs.append("worker failed: %r" % (e,))
                continue
            if "harness_error" in st:
                herrs.append("seed %s: %s" % (st["seed"], st["harness_error"]))
                continue
            agg["states"] += 1
            agg["cells"] += st["cells"]
            if st["nrec"] > 1:
                agg["nontrivial_states"] += 1
                distinct.update(st["distinct"])
            agg["encodings"][st["encoding"]] = agg["encodings"].get(st["encoding"], 0) + 1
            for k in ("labels", "skipped_formats"):
                for kk, vv in st[k].items():
                    if isinstance(vv, int):
                        agg[k][kk] = agg[k].get(kk, 0) + vv
                    else:
                        agg[k][kk + ":" + str(vv)] = agg[k].get(kk + ":" + str(vv), 0) + 1
            violations.extend(st["violations"])
            if len(samples) < 2:
                samples.append({"seed_state": st["nrec"], "platform_encoding": st["encoding"],
                                "cells": sorted(st["labels"])[:12]})
    new, attributed, seen = [], {}, set()
    for v in violations:
        fid = known.attribute("C16", v)
        if fid is not None:
            attributed.setdefault(fid, []).append(v)
            continue
        key = json.dumps(v["signature"])
        if key in seen:
            continue
        seen.add(key)
        new.append(v)
    reported = []
    for v in new[:10]:
        path = check.write_replay("C16", v)
        if not check.verify_replay(path):
            herrs.append("a violation was seen but did not reproduce in a fresh interpreter (not reported): %s" % path)
            continue
        reported.append((v, path))
    wall_s = time.time() - t0
    if agg["cells"] == 0:
        herrs.append("no cells evaluated")
    dropped = agg.get("not_run_wall_cap", 0)
    if agg["states"] < max(check.NPROC, n // 10):
        # a run that covered next to nothing is not a pass (the machine was too loaded)
        herrs.append("only %d of %d states ran within the wall cap of %ds" % (agg["states"], n, wall))
    missing = [k for k in ("json", "xml", "rdf", "provn") if not any(l.startswith(k + ":") for l in agg["labels"])]
    if missing and agg["states"] >= 500:
        herrs.append("no cell at all for format(s) %s" % missing)
    ev = {
        "property_id": "C16", "tier": tier, "seed": seed, "level": "exploration",
        "coverage": {
            "evaluations": agg["cells"], "distinct_nontrivial": len(distinct), "rule": C16.rule,
            "samples": samples or [{"note": "none"}],
            "states": agg["states"], "nontrivial_states": agg["nontrivial_states"],
            "states_not_run_because_of_the_wall_cap": agg.get("not_run_wall_cap", 0),
            "cells_by_label": agg["labels"], "platform_encodings": agg["encodings"],
            "formats_skipped_because_baseline_cell_failed": agg["skipped_formats"],
            "cells_per_hour": int(agg["cells"] / max(wall_s, 1e-9) * 3600),
            "components": check.COMPONENTS,
            "known_findings_reconfirmed": {k: len(v) for k, v in attributed.items()},
            "exhaustive": False,
            "exhaustive_note": "the kinds product is enumerated completely for every sampled state; states are sampled",
        },
        "assumptions": C16.assumptions, "wall_s": round(wall_s, 2), "violations": len(reported),
    }
    os.makedirs(check.evidence_dir(), exist_ok=True)
    tmp = os.path.join(check.evidence_dir(), ".C16.json.tmp")
    with open(tmp, "w") as f:
        json.dump(ev, f, indent=1, default=repr)
    os.replace(tmp, os.path.join(check.evidence_dir(), "C16.json"))
    for fid, vs in sorted(attributed.items()):
        print("KNOWN-FINDING: property=C16 %s: %s (%d occurrences this run)" % (fid, known.describe(fid), len(vs)))
    for v, path in reported:
        print("VIOLATION property=C16 replay=%s" % path)
        print("  signature=%s seed=%s detail=%s" % (json.dumps(v["signature"]), v["seed"],
                                                   json.dumps(v["detail"], default=repr)[:900]))
    for he in herrs[:5]:
        print("HARNESS-ERROR: %s" % he[:3000])
    if dropped:
        print("C16 %s: %d of %d states were not run (wall cap %ds)" % (tier, dropped, n, wall))
    print("C16 %s: states=%d cells=%d distinct=%d violations=%d known=%d wall=%.1fs" % (
        tier, agg["states"], agg["cells"], len(distinct), len(reported), len(attributed), wall_s))
    return 1 if reported else (2 if herrs else 0)


def replay_custom(rec):
    st = run_state(rec["seed"], "quick")
    for v in st["violations"]:
        if v["signature"] == rec["signature"]:
            print("REPLAY property=C16 seed=%s signature=%s same_as_recorded=True" % (rec["seed"], json.dumps(v["signature"])))
            print(json.dumps(v["detail"], indent=1, default=repr)[:3000])
            return 1
    print("REPLAY property=C16 seed=%s: recorded violation %s did not recur" % (rec["seed"], rec["signature"]))
    return 0
