"""C09 - flattened(), update() and add_bundle() conserve records."""
from collections import Counter

from .. import boot  # noqa: F401
from ..core import Oracle, Violation
from .. import observe
from .c08 import full_snapshot
from prov.model import ProvBundle, ProvException


def spec_uri(w, spec):
    """URI a name spec denotes when it is independent of any namespace table."""
    if spec is None:
        return None
    if spec[0] == "qn":
        return spec[2] + spec[3]
    if spec[0] == "nsobj":
        ns = w.nsobjs.get((spec[1], spec[2]))
        return None if ns is None else ns.uri + spec[3]
    return None


def bundle_map(c):
    if not c.is_document():
        return {}
    return {observe._uri(b.identifier): Counter(observe.cont_obs(b)) for b in c.bundles}


def content_snapshot(c):
    """Records and bundles (identifier -> records) of a container, namespaces left out:
    "without changing d" is about what d holds."""
    return (observe.cont_obs(c), tuple(sorted(((u, tuple(sorted(m.elements(), key=repr))) for u, m in bundle_map(c).items()), key=repr)))


def msdiff(exp, got):
    return {
        "missing": [repr(x) for x in list((exp - got).elements())[:3]],
        "unexpected": [repr(x) for x in list((got - exp).elements())[:3]],
    }


class C09(Oracle):
    # reach probes that must not be stuck at zero (else the workload is not reaching what
    # the design says it reaches): the check then exits 2
    required_probes = {"quick": ['refusal_duplicate-identifier', 'refusal_nested-bundles', 'refusal_no-identifier', 'update_merged_same_named_bundle', 'update_appended_bundle', 'flattened_with_bundles'], "thorough": ['refusal_duplicate-identifier', 'refusal_nested-bundles', 'refusal_no-identifier', 'update_merged_same_named_bundle', 'update_appended_bundle', 'flattened_with_bundles']}
    prop = "C09"

    def swarm(self, rng):
        from .. import pools
        w = {
            "doc": 2, "bundle": 4, "fbundle": rng.choice([0, 1, 2]), "add_ns": 5,
            "set_default": rng.choice([0, 1, 3]), "rec": 18, "add_attrs": 1,
            "flattened": 3, "update": 5, "add_bundle": 4,
        }
        prof = {
            "w": w,
            "max_docs": rng.choice([2, 3]),
            "p_reuse_id": rng.choice([0.3, 0.6]),
            "p_clash": rng.choice([0.3, 0.6, 0.8]),
            "p_extra": rng.choice([0.3, 0.7]),
            "locals": rng.sample(pools.LOCALS, rng.choice([3, 5, 8])),
            "mutate_derived": rng.random() < 0.5,
            "name_kinds": {"nsobj": 4, "qn": 4, "pl": 2, "bare": 2, "full": 1},
        }
        return {"profile": prof, "steps": rng.randrange(10, 45)}

    def next_op(self, gen, world, i):
        rng = gen.rng
        if gen.docs and rng.random() < 0.04:
            d = rng.choice(gen.docs)
            if rng.random() < 0.5:
                return ["update_bad", rng.choice(gen.containers()), rng.choice(["none", "str", "list"])]
            return ["add_bundle_bad", d, rng.choice(["none", "str", "dict"])]
        return gen.next_op(world)

    def nontrivial(self, w):
        return self.counters.get("conservation_checks_nonempty", 0) > 0

    # ------------------------------------------------------------------ before
    def before(self, w, i, op):
        self.ctx = None
        k = op[0]
        try:
            if k == "flattened":
                d = w.doc(op[2])
                self.ctx = ("flattened", d, full_snapshot(d), None)
            elif k in ("update", "update_bad"):
                c = w.cont(op[1])
                o = w.cont(op[2]) if k == "update" else None
                self.ctx = (k, c, full_snapshot(c), o, None if o is None else full_snapshot(o),
                            Counter(observe.cont_obs(c)), bundle_map(c),
                            None if o is None else Counter(observe.cont_obs(o)),
                            None if o is None else bundle_map(o),
                            [observe._uri(b.identifier) for b in c.bundles] if c.is_document() else [],
                            content_snapshot(c))
            elif k in ("add_bundle", "add_bundle_bad"):
                d = w.doc(op[1])
                b = w.cont(op[2]) if k == "add_bundle" else None
                self.ctx = (k, d, full_snapshot(d), b,
                            None if b is None else (full_snapshot(b) if b.is_document() else None),
                            None if b is None else Counter(observe.cont_obs(b)),
                            bundle_map(d), Counter(observe.cont_obs(d)), content_snapshot(d))
            elif k == "bundle":
                d = w.doc(op[2])
                self.ctx = ("bundle", d, full_snapshot(d), bundle_map(d), Counter(observe.cont_obs(d)))
        except Exception:
            self.ctx = None

    # ------------------------------------------------------------------- after
    def after(self, w, i, op, out):
        if self.ctx is None or out.status == "skip":
            return
        k = self.ctx[0]
        getattr(self, "chk_" + k)(w, op, out)

    def chk_flattened(self, w, op, out):
        _, d, snap, _ = self.ctx
        self.count("flattened_calls")
        if out.status != "ok":
            raise Violation("C09", "flattened", "raised", {"operation": op, "error": repr(out.exc)})
        f = out.result
        if f.has_bundles() and d.has_bundles():
            raise Violation("C09", "flattened", "result-has-bundles", {"operation": op})
        exp = Counter(observe.cont_obs(d))
        for b in d.bundles:
            exp.update(observe.cont_obs(b))
        if d.has_bundles():
            got = Counter(observe.cont_obs(f))
            self.probe("flattened_with_bundles")
            if sum(exp.values()) > 0:
                self.count("conservation_checks_nonempty")
            if got != exp:
                raise Violation("C09", "flattened", "multiset", dict(operation=op, **msdiff(exp, got)))
        else:
            if Counter(observe.cont_obs(f)) != exp:
                raise Violation("C09", "flattened", "multiset-bundle-free", {"operation": op})

    def chk_update_bad(self, w, op, out):
        _, c, snap = self.ctx[:3]
        self.probe("refusal_non_bundle")
        # the statement promises nothing about non-bundle arguments except, trivially, that
        # there is nothing to add: whatever the call does, the target's content stays
        if content_snapshot(c) != self.ctx[10]:
            raise Violation("C09", "update-refusal", "target-changed", {"operation": op})

    def chk_update(self, w, op, out):
        (_, c, snap, o, osnap, crecs, cb, orecs, ob, cb_order, ccontent) = self.ctx
        self.count("update_calls")
        must_refuse = (not c.is_document()) and o.is_document() and len(ob) > 0
        if must_refuse:
            # a bundle cannot take over another document's bundles; the statement does not say
            # what then happens: a refusal must leave the target's content alone, an acceptance
            # must at least add exactly other's own records
            self.probe("refusal_bundle_update_with_subbundles")
            got = Counter(observe.cont_obs(c))
            if out.status != "ok":
                if content_snapshot(c) != ccontent:
                    raise Violation("C09", "update-refusal", "target-changed", {"operation": op})
            elif got != crecs + orecs:
                raise Violation("C09", "update", "records", dict(operation=op, **msdiff(crecs + orecs, got)))
            return
        if out.status != "ok":
            raise Violation("C09", "update", "raised", {"operation": op, "error": repr(out.exc)})
        if o is not c and not (o.is_bundle() and o.document is c) and not (c.is_bundle() and c.document is o):
            if full_snapshot(o) != osnap:
                raise Violation("C09", "update", "other-changed", {"operation": op})
        exp = crecs + orecs
        got = Counter(observe.cont_obs(c))
        if sum(orecs.values()) > 0:
            self.count("conservation_checks_nonempty")
        if got != exp:
            raise Violation("C09", "update", "records", dict(operation=op, **msdiff(exp, got)))
        if c.is_document():
            expb = {u: Counter(m) for u, m in cb.items()}
            order = list(cb_order)
            if o.is_document():
                for u, m in ob.items():
                    if u in expb:
                        expb[u] = expb[u] + m
                        self.probe("update_merged_same_named_bundle")
                    else:
                        expb[u] = Counter(m)
                        order.append(u)
                        self.probe("update_appended_bundle")
            gotb = bundle_map(c)
            if set(gotb) != set(expb):
                raise Violation("C09", "update", "bundle-ids",
                                {"operation": op, "expected": sorted(expb), "got": sorted(gotb)})
            for u in expb:
                if gotb[u] != expb[u]:
                    raise Violation("C09", "update", "bundle-records",
                                    dict(operation=op, bundle=u, **msdiff(expb[u], gotb[u])))

    def chk_add_bundle_bad(self, w, op, out):
        _, d, snap = self.ctx[:3]
        self.probe("refusal_non_bundle")
        if content_snapshot(d) != self.ctx[8]:
            raise Violation("C09", "add_bundle-refusal", "document-changed", {"operation": op})

    def chk_add_bundle(self, w, op, out):
        (_, d, snap, b, bsnap, brecs, dbundles, drecs, dcontent) = self.ctx
        self.count("add_bundle_calls")
        idspec = op[3]
        refuse = None
        if b.is_document() and b.has_bundles():
            refuse = "nested-bundles"
        elif idspec is None and not b.identifier:
            refuse = "no-identifier"
        if b is d:
            return  # a document added to itself: outside the quantifier
        uri = spec_uri(w, idspec) if idspec is not None else (
            observe._uri(b.identifier) if not b.is_document() else None)
        if refuse is None and uri is not None and uri in dbundles:
            if not (b.is_bundle() and b.document is d and observe._uri(b.identifier) == uri and False):
                refuse = "duplicate-identifier"
        if refuse is not None:
            self.probe("refusal_" + refuse)
            if not out.refused:
                raise Violation("C09", "add_bundle-refusal", refuse + "-accepted",
                                {"operation": op, "outcome": out.summary()})
            if content_snapshot(d) != dcontent:
                raise Violation("C09", "add_bundle-refusal", "document-changed",
                                {"operation": op, "why": refuse})
            return
        if uri is None:
            # identifier given as a string: which URI it denotes is C03's business, but
            # whatever it denotes, the call either refuses and changes nothing, or adds
            # exactly one bundle holding exactly the argument's records and leaves every
            # existing bundle and the document's own records alone
            gotb = bundle_map(d)
            if out.status != "ok":
                if not out.refused:
                    raise Violation("C09", "add_bundle", "raised", {"operation": op, "error": repr(out.exc)})
                if gotb != dbundles or Counter(observe.cont_obs(d)) != drecs:
                    raise Violation("C09", "add_bundle-refusal", "document-changed", {"operation": op})
                return
            self.count("add_bundle_string_id")
            for u, m in dbundles.items():
                if gotb.get(u) != m:
                    raise Violation("C09", "add_bundle", "other-bundle-changed",
                                    {"operation": op, "bundle": u, "spelling": idspec[0]})
            extra = [u for u in gotb if u not in dbundles]
            if len(extra) != 1 or gotb[extra[0]] != brecs:
                raise Violation("C09", "add_bundle", "bundle-ids",
                                {"operation": op, "new": extra, "spelling": idspec[0]})
            if Counter(observe.cont_obs(d)) != drecs:
                raise Violation("C09", "add_bundle", "document-records-changed", {"operation": op})
            return
        if out.status != "ok":
            raise Violation("C09", "add_bundle", "raised", {"operation": op, "error": repr(out.exc)})
        if b.is_document() and full_snapshot(b) != bsnap:
            raise Violation("C09", "add_bundle", "source-document-changed", {"operation": op})
        gotb = bundle_map(d)
        if uri not in gotb:
            raise Violation("C09", "add_bundle", "not-under-requested-identifier",
                            {"operation": op, "requested": uri, "got": sorted(gotb)})
        if sum(brecs.values()) > 0:
            self.count("conservation_checks_nonempty")
        if gotb[uri] != brecs:
            raise Violation("C09", "add_bundle", "records", dict(operation=op, **msdiff(brecs, gotb[uri])))
        for u, m in dbundles.items():
            if gotb.get(u) != m:
                raise Violation("C09", "add_bundle", "other-bundle-changed", {"operation": op, "bundle": u})
        if Counter(observe.cont_obs(d)) != drecs:
            raise Violation("C09", "add_bundle", "document-records-changed", {"operation": op})
        if set(gotb) != set(dbundles) | {uri}:
            raise Violation("C09", "add_bundle", "bundle-ids", {"operation": op})

    def chk_bundle(self, w, op, out):
        (_, d, snap, dbundles, drecs) = self.ctx
        uri = spec_uri(w, op[3])
        if uri is None:
            return
        self.count("bundle_calls")
        if uri in dbundles:
            # bundle() with an identifier in use: nothing is promised beyond conservation
            self.probe("refusal_duplicate-identifier")
            if Counter(observe.cont_obs(d)) != drecs or bundle_map(d) != dbundles:
                raise Violation("C09", "bundle-refusal", "document-changed", {"operation": op})
            return
        if out.status != "ok":
            raise Violation("C09", "bundle", "raised", {"operation": op, "error": repr(out.exc)})
        gotb = bundle_map(d)
        if set(gotb) != set(dbundles) | {uri} or sum(gotb[uri].values()) != 0:
            raise Violation("C09", "bundle", "bundle-ids", {"operation": op, "got": sorted(gotb)})
        if Counter(observe.cont_obs(d)) != drecs:
            raise Violation("C09", "bundle", "document-records-changed", {"operation": op})
