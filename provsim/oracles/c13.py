"""C13 - exporting never mutates the document and is repeatable.

Same write-set invariant as C12 with an *empty* write set for every exporter /
comparer / hasher / unifier / flattener (record order included), plus: second call
gives identical text (isomorphic graphs for RDF), and a *twin world* driven by the
same operations in the same process exports byte-identical text.
"""
import io

from .. import boot  # noqa: F401
from ..core import Oracle, Violation
from ..world import World
from .c12 import snapshot, write_set, describe_change

PURE = ("serialize", "provn", "graph", "dot", "eq", "req", "hash", "unified", "flattened",
        "roundtrip")
TEXT = ("serialize", "provn")


def rdf_graphs(text):
    from rdflib import ConjunctiveGraph
    from rdflib.term import BNode

    g = ConjunctiveGraph()
    g.parse(data=text, format="trig")
    named = {}
    default = []
    for ctx in g.contexts():
        if isinstance(ctx.identifier, BNode):
            default.append(ctx)
        else:
            named[str(ctx.identifier)] = ctx
    return default, named


def rdf_isomorphic(t1, t2):
    from rdflib import Graph
    from rdflib.compare import isomorphic

    d1, n1 = rdf_graphs(t1)
    d2, n2 = rdf_graphs(t2)
    if sorted(n1) != sorted(n2):
        return False
    for k in n1:
        if not isomorphic(n1[k], n2[k]):
            return False
    u1, u2 = Graph(), Graph()
    for c in d1:
        for t in c:
            u1.add(t)
    for c in d2:
        for t in c:
            u2.add(t)
    return isomorphic(u1, u2)


class C13(Oracle):
    # reach probes that must not be stuck at zero (else the workload is not reaching what
    # the design says it reaches): the check then exits 2
    required_probes = {"quick": ['rdf_isomorphism_checks', 'exporter_raised'], "thorough": ['rdf_isomorphism_checks', 'exporter_raised']}
    prop = "C13"

    def swarm(self, rng):
        w = {
            "doc": 1, "bundle": 3, "fbundle": rng.choice([0, 1, 2]), "add_bundle": rng.choice([0, 2]),
            "add_ns": 4,
            "set_default": rng.choice([0, 1, 2]), "rec": 14, "add_attrs": 3,
            "set_time": 1, "add_type": 1,
            "export": 12, "eq": 3, "unified": 2, "flattened": 1, "peek": 3, "get_record_absent": 1,
            "rebuild": rng.choice([0, 2]),
            "get_records": 1, "update": rng.choice([0, 1]),
            "roundtrip": rng.choice([0, 1]),
        }
        prof = {
            "w": w,
            "max_docs": rng.choice([1, 2]),
            "p_reuse_id": rng.choice([0.2, 0.5]),
            "p_clash": rng.choice([0.1, 0.3, 0.6]),
            "fmt": rng.choice(["json", "xml"]),
            "mutate_derived": rng.random() < 0.3,
            "multi_value": rng.choice([0.3, 0.7]),
        }
        return {"profile": prof, "steps": rng.randrange(10, 40)}

    def nontrivial(self, w):
        return self.counters.get("exports_nonempty", 0) > 0

    def before(self, w, i, op):
        if not hasattr(self, "twin"):
            self.twin = World(self.cfg)
        self.pre = snapshot(w)
        self.ws = set()
        self.judged = op[0] in PURE  # mutators' side effects are C12's business

    def after(self, w, i, op, out):
        post = snapshot(w)
        k = op[0]
        if k in PURE:
            self.count("pure_calls")
            if out.status == "exc":
                self.probe("exporter_raised")
        for oid, (kind, h, val) in (self.pre.items() if self.judged else ()):
            now = post.get(oid)
            if now is not None and now[2] != val:
                raise Violation(
                    "C13", "purity", k,
                    {"operation": op, "outcome": out.summary(), "changed": h,
                     "what": describe_change(kind, val, now[2])},
                    {"op": k},
                )
        self.__dict__.setdefault("_history", []).append(op)
        # the twin world replays the same operation
        tout = self.twin.execute(op)
        if tout.status != out.status:
            raise Violation("C13", "twin", k + "-status",
                            {"operation": op, "primary": out.summary(), "twin": tout.summary()})
        if k in TEXT and out.status == "ok":
            text = out.result
            try:
                d = w.cont(op[1])
                nonempty = len(d.get_records()) > 0 or (d.is_document() and d.has_bundles())
            except Exception:
                nonempty = False
            if nonempty:
                self.count("exports_nonempty")
            fmt = op[2] if k == "serialize" else "provn"
            self.count("export_" + fmt)
            # the text is a function of the document's observable state: if nothing
            # observable changed since an earlier identical export call (whatever other
            # read-only calls happened in between), the text must be the same
            if fmt != "rdf":
                from .c08 import full_snapshot
                try:
                    key = (id(d), repr(op[2:]) if k == "serialize" else "provn")
                    state = full_snapshot(d)
                    memo = self.__dict__.setdefault("_texts", {})
                    prev = memo.get(key)
                    if prev is not None and prev[0] == state and prev[1] != text:
                        raise Violation("C13", "repeatable", fmt + "-text-changed-though-document-unchanged",
                                        {"operation": op, "earlier": prev[1][:800], "now": text[:800]})
                    memo[key] = (state, text)
                    self.count("state_text_memo_checks")
                except Violation:
                    raise
                except Exception:
                    pass
            # second call
            again = w.execute(list(op))
            w.log.pop()
            w.step -= 1
            if again.status != "ok":
                raise Violation("C13", "repeatable", fmt + "-second-call-raised",
                                {"operation": op, "second": again.summary()})
            if fmt == "rdf":
                try:
                    rdf_graphs(text)
                    parseable = True
                except Exception:
                    # TriG that rdflib itself cannot read back (e.g. an empty typed
                    # literal): nothing to compare graphs with; not C13's business
                    parseable = False
                    self.probe("rdf_output_unparseable")
                if parseable:
                    if not rdf_isomorphic(text, again.result):
                        raise Violation("C13", "repeatable", "rdf-not-isomorphic", {"operation": op})
                    if not rdf_isomorphic(text, tout.result):
                        raise Violation("C13", "twin", "rdf-not-isomorphic", {"operation": op})
                    self.probe("rdf_isomorphism_checks", 2)
            else:
                if again.result != text:
                    raise Violation("C13", "repeatable", fmt + "-text-differs",
                                    {"operation": op, "first": text[:600], "second": again.result[:600]})
                if tout.result != text:
                    raise Violation("C13", "twin", fmt + "-text-differs",
                                    {"operation": op, "primary": text[:600], "twin": tout.result[:600]})
            # a *pristine* twin: a world rebuilt from the constructing operations only, on
            # which no exporter, comparison or read-only accessor has ever run, must export
            # the same text ("two documents built by the same calls")
            if fmt != "rdf" and (self.counters.get("pristine_twin_checks", 0) < 6):
                pw = World(self.cfg)
                for hop in self._history[:-1]:
                    # only the operations C13 lists are left out (read-only accessors such as
                    # label / get_attribute are not among them, so the pristine twin runs them)
                    if hop[0] not in PURE or hop[0] in ("unified", "flattened", "roundtrip"):
                        pw.execute(hop)
                pout = pw.execute(op)
                self.count("pristine_twin_checks")
                if pout.status == "ok" and pout.result != text:
                    raise Violation("C13", "twin", fmt + "-text-depends-on-earlier-read-only-calls",
                                    {"operation": op, "primary": text[:800], "pristine_twin": pout.result[:800]})
            # the second call must not have mutated anything either
            post2 = snapshot(w)
            for oid, (kind, h, val) in self.pre.items():
                now = post2.get(oid)
                if now is not None and now[2] != val:
                    raise Violation("C13", "purity", k + "-second-call",
                                    {"operation": op, "changed": h,
                                     "what": describe_change(kind, val, now[2])}, {"op": k})
