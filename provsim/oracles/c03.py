"""C03 - qualified names keep their URI and stay unambiguous under any namespace history.

History invariants, evaluated after every step over every live container:
 (a) resolving a QualifiedName never changes its URI; names given with a known URI are
     stored with that URI; a 'prefix:local' string whose prefix is observably bound here
     denotes that binding; a full-URI string resolves to nothing or to exactly itself;
 (b) the observable table {prefix -> uri} + default is monotone, add_namespace returns a
     namespace for the requested URI that is bound in the table, prov/xsd/xsi never move;
 (c) every name the container has ever handed out, printed and resolved again in the
     same container, still denotes the same URI.
"""
from .. import boot  # noqa: F401
from ..core import Oracle, Violation
from .. import observe, pools
from prov.identifier import QualifiedName
from prov.model import Literal


def table(c):
    return {ns.prefix: ns.uri for ns in c.namespaces}


def default_uri(c):
    d = c.get_default_namespace()
    return None if d is None else d.uri


class C03(Oracle):
    # reach probes that must not be stuck at zero (else the workload is not reaching what
    # the design says it reaches): the check then exits 2
    required_probes = {"quick": ['clash_renamed_or_aliased', 'full_uri_compacted', 'empty_prefix_qualified_name'], "thorough": ['clash_renamed_or_aliased', 'full_uri_compacted', 'empty_prefix_qualified_name']}
    prop = "C03"

    def swarm(self, rng):
        w = {
            "doc": 1, "bundle": 4, "fbundle": rng.choice([0, 1, 2]), "add_ns": 10,
            "set_default": rng.choice([0, 2, 4]), "resolve": 12, "rec": 8,
            "add_attrs": 1, "add_bundle": rng.choice([0, 2]),
            "update": rng.choice([0, 0, 2]), "add_record": rng.choice([0, 0, 2]),
        }
        prof = {
            "w": w,
            "max_docs": rng.choice([1, 2]),
            "p_clash": rng.choice([0.3, 0.6, 0.8]),
            "p_extra": rng.choice([0.2, 0.6]),
            "name_kinds": {"nsobj": 3, "qn": 5, "pl": 4, "bare": 2, "full": 2},
            "value_kinds": {"s": 2, "i": 1, "qnv": 5, "lang": 1, "litf": 2},
            "odd_locals": rng.random() < 0.3,
            "attr_prov": 0.1,
        }
        return {"profile": prof, "steps": rng.randrange(10, 45), "p_f13": rng.choice([0.0, 0.03])}

    def next_op(self, gen, world, i):
        rng = gen.rng
        if gen.docs and rng.random() < self.cfg.get("p_f13", 0):
            # a full URI whose local part contains a namespace URI
            ch = gen.pick_container()
            return ["resolve", ch, ["full", "urn:x:", pools.LOCAL_WITH_URI]]
        return gen.next_op(world)

    def nontrivial(self, w):
        return self.counters.get("reresolutions", 0) > 0

    def st(self, c):
        if not hasattr(self, "_st"):
            self._st = {}
        s = self._st.get(id(c))
        if s is None:
            s = {"seen": {}, "default": None, "handed": {}, "obj": c}
            self._st[id(c)] = s
        return s

    # ---------------------------------------------------------------------- hooks
    def after(self, w, i, op, out):
        k = op[0]
        if k == "resolve" and out.status != "skip":
            self.chk_resolve(w, op, out)
        elif k == "add_ns" and out.status != "skip":
            self.chk_add_ns(w, op, out)
        elif k == "rec" and out.status == "ok" and out.result is not None:
            self.chk_rec(w, op, out)
        elif k == "bundle" and out.status == "ok":
            d = w.cont(op[2])
            b = out.result
            self.hand(d, b.identifier, "bundle-identifier")
            if op[3][0] in ("qn", "nsobj") :
                from .c05 import name_uri, UNKNOWN
                u = name_uri(w, op[3])
                if u is not UNKNOWN and b.identifier.uri != u:
                    raise Violation("C03", "a", "bundle-identifier-uri",
                                    {"operation": op, "got": b.identifier.uri, "expected": u})
        for ch, c in w.all_containers():
            self.invariants(ch, c)

    def hand(self, c, q, how):
        if not isinstance(q, QualifiedName):
            return
        if not q.namespace.prefix and ":" in q.localpart:
            # a bare local name containing ':' cannot be told from prefix:local by any
            # reader; outside "bare local names" of the quantifier
            return
        s = self.st(c)
        printed = str(q)
        prev = s["handed"].get(printed)
        if prev is not None and prev[0] != q.uri:
            raise Violation(
                "C03", "c", "same-printed-name-two-uris",
                {"printed": printed, "first": prev[0], "now": q.uri, "how": how},
                self.facts(c, q),
            )
        if prev is None:
            s["handed"][printed] = (q.uri, how)

    def chk_resolve(self, w, op, out):
        c = w.cont(op[1])
        spec = op[2]
        self.count("resolutions")
        if out.status == "exc":
            if op[2][0] in ("qn", "nsobj"):
                raise Violation("C03", "a", "resolve-raised", {"operation": op, "error": repr(out.exc)})
            self.count("string_resolution_raised")  # an unresolvable string may be refused
            return
        q = out.result
        t = spec[0]
        if t in ("qn", "nsobj"):
            from .c05 import name_uri, UNKNOWN
            u = name_uri(w, spec)
            if u is UNKNOWN:
                return
            if q is None or q.uri != u:
                raise Violation("C03", "a", "qualified-name-uri-changed",
                                {"operation": op, "expected": u, "got": None if q is None else q.uri},
                                {} if q is None else self.facts(c, q))
            if t == "qn" and spec[1] == "":
                self.probe("empty_prefix_qualified_name")
        elif t == "full":
            s = spec[1] + spec[2]
            if q is not None and q.uri != s:
                raise Violation("C03", "a", "full-uri-changed",
                                {"operation": op, "expected": s, "got": q.uri}, {"full": s})
            if q is not None:
                self.probe("full_uri_compacted")
        elif t == "pl":
            own = table(c)
            if spec[1] in own and spec[1] in self.st(c)["seen"]:
                exp = own[spec[1]] + spec[2]
                if q is None or q.uri != exp:
                    raise Violation("C03", "a", "bound-prefix-misresolved",
                                    {"operation": op, "expected": exp, "got": None if q is None else q.uri})
            elif spec[1] in pools.RESERVED and spec[1] not in own:
                exp = pools.RESERVED[spec[1]] + spec[2]
                if q is None or q.uri != exp:
                    raise Violation("C03", "b", "reserved-prefix-moved",
                                    {"operation": op, "expected": exp, "got": None if q is None else q.uri})
        elif t == "bare":
            du = self.st(c)["default"]
            if du is not None and default_uri(c) == du:
                exp = du + spec[1]
                if q is None or q.uri != exp:
                    raise Violation("C03", "a", "default-misresolved",
                                    {"operation": op, "expected": exp, "got": None if q is None else q.uri})
        if q is not None:
            self.hand(c, q, "resolve")

    def chk_add_ns(self, w, op, out):
        c = w.cont(op[1])
        self.count("registrations")
        if out.status != "ok":
            raise Violation("C03", "b", "add_namespace-raised", {"operation": op, "error": repr(out.exc)})
        ns = out.result
        if ns.uri != op[3]:
            raise Violation("C03", "b", "returned-namespace-other-uri",
                            {"operation": op, "returned": [ns.prefix, ns.uri]})
        if ns.prefix != op[2]:
            self.probe("clash_renamed_or_aliased")
        q = c.valid_qualified_name("%s:probe" % ns.prefix)
        if q is None or q.uri != op[3] + "probe":
            raise Violation("C03", "b", "returned-prefix-does-not-resolve",
                            {"operation": op, "returned": [ns.prefix, ns.uri],
                             "got": None if q is None else q.uri})

    def chk_rec(self, w, op, out):
        from .c05 import name_uri, UNKNOWN
        r = out.result
        idspec = op[4]
        if idspec is not None and idspec[0] in ("qn", "nsobj"):
            u = name_uri(w, idspec)
            if u is not UNKNOWN and observe._uri(r.identifier) != u:
                raise Violation("C03", "a", "identifier-uri-changed",
                                {"operation": op, "expected": u, "got": observe._uri(r.identifier)})
        self.count("stored_name_checks")

    # ------------------------------------------------------------------ invariants
    def invariants(self, ch, c):
        s = self.st(c)
        own = table(c)
        # (b) monotone table
        for p, u in s["seen"].items():
            if own.get(p) != u:
                raise Violation("C03", "b", "prefix-repointed" if p in own else "prefix-dropped",
                                {"container": ch, "prefix": p, "was": u, "now": own.get(p)},
                                {"prefix": p})
        for p, u in own.items():
            if p not in s["seen"]:
                s["seen"][p] = u
        du = default_uri(c)
        if s["default"] is not None and du != s["default"]:
            raise Violation("C03", "b", "default-rebound",
                            {"container": ch, "was": s["default"], "now": du})
        if du is not None:
            s["default"] = du
        # reserved prefixes never move (unless the table itself shows the user bound it:
        # impossible, they are pre-bound)
        for p, u in pools.RESERVED.items():
            q = c.valid_qualified_name("%s:zz" % p)
            self.count("reserved_checks")
            if q is None or q.uri != u + "zz":
                raise Violation("C03", "b", "reserved-prefix-moved",
                                {"container": ch, "prefix": p, "got": None if q is None else q.uri})
        # collect names reachable from the container's records
        for r in c.get_records():
            self.hand(c, r.identifier, "record-identifier")
            for a, v in r.attributes:
                self.hand(c, a, "attribute-name")
                if isinstance(v, QualifiedName):
                    self.hand(c, v, "attribute-value")

        # (c) re-resolution of every name ever handed out
        for printed, (uri, how) in s["handed"].items():
            q = c.valid_qualified_name(printed)
            self.count("reresolutions")
            if q is None or q.uri != uri:
                raise Violation(
                    "C03", "c", "printed-name-denotes-other-uri" if q is not None else "printed-name-unresolvable",
                    {"container": ch, "printed": printed, "handed_out_as": uri, "how": how,
                     "now": None if q is None else q.uri, "table": own, "default": du},
                    {"printed": printed},
                )

    @staticmethod
    def facts(c, q):
        return {"prefix": q.namespace.prefix, "ns_uri": q.namespace.uri, "local": q.localpart}
