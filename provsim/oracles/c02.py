"""C02 - PROV-XML round trip preserves every (XML-expressible) document exactly."""
import re

from .. import boot  # noqa: F401
from .. import pools
from .c01 import RoundTrip
from prov.identifier import QualifiedName
from prov.model import Literal

NCNAME = re.compile(r"^[A-Za-z_][A-Za-z0-9_.\-]*$")
XML_BAD = re.compile("[^\u0009\u000A -퟿-�\U00010000-\U0010FFFF]")
LABEL = pools.PROV_URI + "label"
XSD_QNAME = pools.XSD_URI + "QName"


def xml_eligible_records(c):
    for r in c.get_records():
        for a, v in r.attributes:
            if not isinstance(a, QualifiedName) or not NCNAME.match(a.localpart):
                return "attribute-name-not-ncname"
            if isinstance(v, str):
                if XML_BAD.search(v):
                    return "string-not-xml-chars"
            elif isinstance(v, Literal):
                if XML_BAD.search(v.value):
                    return "string-not-xml-chars"
                if v.datatype is not None and v.datatype.uri == XSD_QNAME:
                    return "literal-xsd-qname"
            if a.uri == LABEL:
                if not (isinstance(v, str) or (isinstance(v, Literal) and v.langtag)):
                    return "label-not-string"
    return None


class C02(RoundTrip):
    prop = "C02"
    fmt = "xml"

    def swarm(self, rng):
        cfg = RoundTrip.swarm(self, rng)
        p = cfg["profile"]
        # weight up what the property singles out: bundles with their own prefixes and
        # default namespace, empty strings, default-namespace attribute names
        p["w"]["bundle"] = 4
        p["w"]["set_default"] = rng.choice([1, 2, 3])
        p["bundle_defaults"] = True
        p["name_kinds"] = {"nsobj": 5, "qn": 3, "pl": 3, "bare": rng.choice([1, 3]), "full": 1}
        return cfg

    def eligible(self, d):
        why = xml_eligible_records(d)
        if why:
            return False, why
        for b in d.bundles:
            why = xml_eligible_records(b)
            if why:
                return False, why
        return True, None
