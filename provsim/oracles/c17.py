"""C17 - writing to a file path is exact and all-or-nothing.

Fault enumeration.  A *scenario* is (document state built by a seeded history) x
(format, options) x (file-name class) x (destination absent | pre-existing) x
(same device | temp dir on another device).  A fault-free instrumented run records
the instant trace; then every instant x {error, torn write, crash} is injected in
turn in a fresh private directory.  Thorough adds seeded double faults.
"""
import hashlib
import json
import os
import random
import shutil
import sys
import tempfile
import time
import traceback

from .. import boot  # noqa: F401
from .. import core, iosim, observe, seams
from ..core import Oracle, Violation
from ..ops import Gen, DEFAULT_PROFILE, merged
from ..world import World
from prov.model import ProvDocument

FORMATS = ["json", "xml", "rdf", "provn"]
NAME_CLASSES = [
    ("relative", "out.%(ext)s"),
    ("absolute", "%(dir)s/abs-out.%(ext)s"),
    ("subdir", "sub/dir/out.%(ext)s"),
    ("spaces", "my file name.%(ext)s"),
    ("non-ascii", "résumé-文件.%(ext)s"),
    ("hash", "a#b.%(ext)s"),
    ("question", "q?x.%(ext)s"),
    ("semicolon", "s;p.%(ext)s"),
    ("colon", "c:d.%(ext)s"),
    ("percent", "p%%41q.%(ext)s"),
    # link -> ../store/current : "link/.." is the store directory, not the working directory
    ("symlink-dotdot", "link/../out.%(ext)s"),
]
KINDS = ["error", "torn", "crash"]
OLD = b"OLD CONTENT that must survive intact \xe2\x9c\x93\n" * 3


class C17(Oracle):
    prop = "C17"
    rule = ("one evaluation = one injected-fault execution (or fault-free instrumented execution) of "
            "serialize(destination=path) in a fresh private directory; a scenario = document state x format/"
            "options x file-name class x pre-existing? x EXDEV?; every instant of the fault-free trace is "
            "failed, torn and crashed in turn; distinct = distinct (scenario digest, instant label, fault kind, "
            "exdev); non-trivial = the fault actually fired inside the library call")
    assumptions = [
        "instants are Python-level calls (open/fdopen/write/flush/close/rename/replace/unlink/mkstemp); writes "
        "performed inside C code on a file *name* would be invisible (none today)",
        "power loss without fsync is not modelled (the code never calls fsync); a process kill leaves the page "
        "cache intact and is what 'crash' models",
        "RDF output is compared by graph isomorphism (blank node labels are minted per call)",
    ]

    @staticmethod
    def custom_check(tier, seed):
        return run(tier, seed)


# ----------------------------------------------------------------- scenario
def build_doc(seed):
    """A document state reached by a seeded history (C01's generator profile)."""
    rng = random.Random("c17:%d" % seed)
    prof = merged(DEFAULT_PROFILE, **{
        "w": {"doc": 0, "bundle": 2, "add_ns": 4, "set_default": rng.choice([0, 1]), "rec": 20, "add_attrs": 3},
        "max_docs": 1, "p_extra": 0.6,
        "value_kinds": {"s": 5, "i": 3, "b": 2, "dt": 2, "uri": 2, "qnv": 3, "lang": 2},
        "mask": "first2", "mention": False,
    })
    gen = Gen(rng, prof)
    w = World()
    seams.install(seed)
    n = rng.choice([2, 5, 12, 30, 120])
    for i in range(n):
        op = gen.next_op(w)
        w.execute(op)
    d = w.containers[gen.docs[0]]
    return d, n


def scenario(seed):
    rng = random.Random("c17s:%d" % seed)
    fmt = rng.choice(FORMATS)
    opts = {}
    if fmt == "json":
        opts = {"indent": rng.choice([None, 2])}
    elif fmt == "xml":
        opts = {"force_types": rng.random() < 0.5}
    return {
        "seed": seed, "fmt": fmt, "opts": opts,
        "name": rng.randrange(len(NAME_CLASSES)),
        "preexisting": rng.choice([False, False, True, True, True, "long", "dir"]),
        "big": rng.random() < 0.15,
        "bufsize": rng.choice([0, 0, 64, 8192, 8192]),  # writer buffer of the simulated file layer
    }


class Sandbox(object):
    """A private directory + sibling temp directory; cwd is the private directory."""

    def __init__(self):
        self.base = os.path.realpath(tempfile.mkdtemp(prefix="provsim-c17-"))
        self.root = os.path.join(self.base, "work")
        self.tmp = os.path.join(self.base, "tmp")
        os.makedirs(self.root)
        os.makedirs(self.tmp)
        os.makedirs(os.path.join(self.root, "sub", "dir"))
        self.store = os.path.join(self.base, "store")
        os.makedirs(os.path.join(self.store, "current"))
        os.symlink(os.path.join("..", "store", "current"), os.path.join(self.root, "link"))
        self.cwd = os.getcwd()
        os.chdir(self.root)

    def listing(self):
        out = []
        for base in (self.root, self.tmp, self.store):
            for dp, dn, fn in os.walk(base):
                for f in fn:
                    out.append(os.path.relpath(os.path.join(dp, f), self.base))
        return sorted(out)

    def close(self):
        os.chdir(self.cwd)
        shutil.rmtree(self.base, ignore_errors=True)


def reference_bytes(d, sc):
    """Bytes a binary-stream export gives, or None when the document cannot be serialised
    in this format at all (then the path write must fail too and change nothing)."""
    import io
    buf = io.BytesIO()
    try:
        seams.reseed_uuid(sc["seed"])
        d.serialize(buf, format=sc["fmt"], **sc["opts"])
    except Exception:
        return None
    return buf.getvalue()


def same_content(fmt, data, ref):
    """Is `data` a complete serialisation equal to the reference?"""
    if ref is None:
        return False
    # RDF too: the blank-node id stream is restarted before every export, so two
    # exports of the same document are byte-identical ...
    if data == ref:
        return True
    if fmt == "xml":
        # C17 asks for "the complete serialisation"; for XML that is a document that parses
        # identically (C16's wording), not necessarily the same bytes
        from .c16 import c14n
        try:
            return c14n(data) == c14n(ref)
        except Exception:
            return False
    if fmt == "rdf":
        # ... and should the library ever draw blank-node ids from somewhere the seams do
        # not reach, an isomorphic graph is still the complete new serialisation
        from .c13 import rdf_isomorphic
        try:
            return rdf_isomorphic(data.decode("utf-8"), ref.decode("utf-8"))
        except Exception:
            return False
    return False


def run_once(d, sc, plan, exdev, ref):
    """One execution of serialize(destination=path) under a fault plan.

    Returns a result dict; raises Violation on a property violation.
    """
    sb = Sandbox()
    try:
        cls, pattern = NAME_CLASSES[sc["name"]]
        name = pattern % {"ext": sc["fmt"], "dir": sb.root}
        path = name  # as handed to the library (relative names resolve against cwd)
        full = name if os.path.isabs(name) else os.path.join(sb.root, name)
        old_bytes = OLD * 400 if sc["preexisting"] == "long" else OLD  # longer than most new contents
        if sc["preexisting"] == "dir":
            os.makedirs(full)
            with iosim.real_open(os.path.join(full, "inner.txt"), "wb") as f:
                f.write(OLD)
        elif sc["preexisting"]:
            with iosim.real_open(full, "wb") as f:
                f.write(old_bytes)
        # neighbours a sloppy temp-file scheme might clobber; they must survive untouched
        decoys = {}
        if sc["preexisting"] != "dir":
            for suffix in (".tmp", "~", ".bak", ".part", ".new"):
                dp = full + suffix
                with iosim.real_open(dp, "wb") as f:
                    f.write(b"decoy " + suffix.encode())
                decoys[dp] = b"decoy " + suffix.encode()
        before = sb.listing()
        # where the kernel resolves the name to (symlinked directories and ".." included)
        dest_rel = os.path.relpath(os.path.join(os.path.realpath(os.path.dirname(full)), os.path.basename(full)),
                                   os.path.realpath(sb.base))
        states = []

        def read_dest():
            try:
                with iosim.real_open(full, "rb") as f:
                    return f.read()
            except FileNotFoundError:
                return None
            except IsADirectoryError:
                return ("dir", tuple(sorted(os.listdir(full))))

        def observe_dest(label):
            states.append((label, read_dest()))

        old = old_bytes if sc["preexisting"] else None
        if sc["preexisting"] == "dir":
            # the name is taken by a directory: the call must fail and leave it as it is
            old = ("dir", ("inner.txt",))

        def acceptable(data):
            return data == old or (isinstance(data, bytes) and same_content(sc["fmt"], data, ref))

        sim = iosim.FsSim(sb.tmp, plan=plan, exdev=exdev, observe=observe_dest, bufsize=sc.get("bufsize", 0))
        outcome = "returned"
        err = None
        seams.reseed_uuid(sc["seed"])
        with sim:
            try:
                d.serialize(path, format=sc["fmt"], **sc["opts"])
            except iosim.SimCrash:
                outcome = "crashed"
            except Exception as e:  # any exception type is accepted
                outcome = "raised"
                err = e
        final = read_dest()
        states.append(("return", final))
        detail = {
            "scenario": sc, "file_name_class": cls, "file_name": name, "exdev": exdev,
            "plan": {str(k): v for k, v in plan.items()}, "trace": sim.trace, "fired": sim.fired,
            "outcome": outcome, "error": repr(err)[:300] if err else None,
        }
        facts = {"name_class": cls, "exdev": exdev, "fired": [list(x) for x in sim.fired], "fmt": sc["fmt"]}
        # Whenever the call ends - by returning, raising or being killed - the named file holds
        # its old content in full or a complete new serialisation.  (Crashing at instant i
        # freezes the state observed before instant i, so the enumeration of crash instants
        # covers every intermediate state; transient states of an execution that then
        # completes are not a violation of the property.)
        detail["intermediate_states_not_old_or_new"] = sum(1 for _, x in states[:-1] if not acceptable(x))
        for label, data in states[-1:]:
            if not acceptable(data):
                detail["at"] = label
                detail["destination_bytes"] = len(data) if isinstance(data, bytes) else repr(data)
                detail["expected_old_bytes"] = len(old) if isinstance(old, bytes) else repr(old)
                detail["expected_new_bytes"] = None if ref is None else len(ref)
                kind = "absent-but-written-elsewhere" if data is None and not plan else (
                    "truncated-or-partial" if isinstance(data, bytes) and len(data) < len(ref or b"") else "wrong-content")
                raise Violation("C17", "all-or-nothing" if plan else "exact", kind, detail, facts)
        for dp, content in decoys.items():
            try:
                with iosim.real_open(dp, "rb") as f:
                    now = f.read()
            except OSError:
                now = None
            if now != content:
                detail["neighbour"] = os.path.basename(dp)
                detail["neighbour_now"] = None if now is None else len(now)
                raise Violation("C17", "exact", "neighbouring-file-changed", detail, facts)
        if sc["preexisting"] == "dir":
            facts["destination_is_directory"] = True
            if outcome == "returned":
                detail["listing"] = sb.listing()
                raise Violation("C17", "swallowed-failure", "returned-though-destination-is-a-directory", detail, facts)
            stray = sorted(set(sb.listing()) - set(before))  # counted as leaked, like after any failure
            return {"trace": sim.trace, "fired": sim.fired, "outcome": "dir-" + outcome, "leaked": stray,
                    "restart": None, "retry": None}
        if ref is None:
            facts["unserialisable"] = True
            if outcome == "returned":
                raise Violation("C17", "swallowed-failure", "returned-though-serialisation-fails", detail, facts)
            return {"trace": sim.trace, "fired": sim.fired, "outcome": "unserialisable-" + outcome,
                    "leaked": sorted(set(sb.listing()) - set(before)), "restart": None, "retry": None}
        if outcome == "returned":
            # a normal return with anything but the complete new content is a swallowed failure
            if final is None or not same_content(sc["fmt"], final, ref):
                detail["destination_bytes"] = None if final is None else len(final)
                detail["listing"] = sb.listing()
                raise Violation("C17", "exact" if not plan else "swallowed-failure",
                                "not-written-to-named-file" if not plan else "returned-without-new-content",
                                detail, facts)
        if not plan:
            # fault-free: nothing else may appear anywhere
            after = sb.listing()
            extra = sorted(set(after) - set(before) - {dest_rel})
            if extra:
                detail["unexpected_files"] = extra
                raise Violation("C17", "exact", "written-elsewhere", detail, facts)
        leaked = sorted(set(sb.listing()) - set(before) - {dest_rel})
        restart = None
        # bounded liveness: once faults stop, the next serialize to the same path succeeds
        retry = None
        if plan:
            sim2 = iosim.FsSim(sb.tmp, plan={}, exdev=exdev, bufsize=sc.get("bufsize", 0))
            seams.reseed_uuid(sc["seed"])
            with sim2:
                try:
                    d.serialize(path, format=sc["fmt"], **sc["opts"])
                    retry = "ok"
                except Exception as e:
                    retry = repr(e)[:200]
            now = read_dest()
            if retry != "ok" or not isinstance(now, bytes) or not same_content(sc["fmt"], now, ref):
                # C17 states no liveness requirement: recorded in the evidence, not alarmed
                retry = "failed: %s" % retry
        return {"trace": sim.trace, "fired": sim.fired, "outcome": outcome, "leaked": leaked,
                "restart": restart, "retry": retry, "short_writes": getattr(sim, "short_writes", 0)}
    finally:
        sb.close()


def run_scenario(seed, tier):
    """Enumerate all single faults (and seeded double faults in thorough) for one scenario."""
    sc = scenario(seed)
    d, nops = build_doc(seed)
    if sc["big"] and sc["fmt"] == "xml":
        for i in range(600):
            d.entity("big:e%d" % i, {"big:attr": "x" * 40}) if i else d.add_namespace("big", "http://big.example/")
    ref = reference_bytes(d, sc)
    stats = {"executions": 0, "fired": {}, "outcomes": {}, "instants": 0, "leaked_temp_files": 0,
             "labels": {}, "distinct": [], "violations": []}

    def one(plan, exdev):
        stats["executions"] += 1
        try:
            r = run_once(d, sc, plan, exdev, ref)
        except Violation as v:
            v.detail["replay"] = {"seed": seed, "plan": {str(k): x for k, x in plan.items()}, "exdev": exdev}
            stats["violations"].append({
                "property": "C17", "kind": "custom", "seed": seed, "hashseed": os.environ.get("PYTHONHASHSEED", "0"),
                "signature": v.signature, "detail": v.detail, "facts": v.facts,
                "plan": {str(k): x for k, x in plan.items()}, "exdev": exdev, "count": 1,
            })
            return None
        stats["outcomes"][r["outcome"]] = stats["outcomes"].get(r["outcome"], 0) + 1
        if r["leaked"]:
            stats["leaked_temp_files"] += 1
            # narrower counter: the call *raised* (no kill), and neither the kill nor the clean-up
            # itself was the injected fault - the library had every chance to tidy up
            if r["outcome"].endswith("raised") and not any(
                    act == "crash" or label.startswith("unlink") for _, label, act in r["fired"]):
                stats["leaked_after_plain_failure"] = stats.get("leaked_after_plain_failure", 0) + 1
        if r.get("retry") and r["retry"] != "ok":
            stats["retry_failed"] = stats.get("retry_failed", 0) + 1
        stats["short_writes"] = stats.get("short_writes", 0) + r.get("short_writes", 0)
        for idx, label, act in r["fired"]:
            key = "%s@%s%s" % (act, label, "+exdev" if exdev else "")
            stats["fired"][key] = stats["fired"].get(key, 0) + 1
            stats["distinct"].append(hashlib.sha1(("%s|%s|%s|%s" % (seed, idx, act, exdev)).encode()).hexdigest()[:12])
        return r

    for exdev in (False, True):
        base = one({}, exdev)
        if base is None:
            continue
        n = len(base["trace"])
        stats["instants"] += n
        for lab in base["trace"]:
            k = lab.split("[")[0]
            stats["labels"][k] = stats["labels"].get(k, 0) + 1
        # cap the write instants of very long traces: first, last and a seeded sample
        idxs = list(range(n))
        if n > 40:
            rng = random.Random(seed)
            keep = set(idxs[:6] + idxs[-8:] + rng.sample(idxs, 20))
            idxs = sorted(keep)
        for i in idxs:
            for kind in KINDS:
                if len(stats["violations"]) >= 4:
                    break
                one({i: kind}, exdev)
        if tier == "thorough" and n >= 2:
            rng = random.Random(seed * 7 + (1 if exdev else 0))
            for _ in range(6):
                i = rng.randrange(n)
                j = rng.randrange(i, min(n + 3, i + 6))
                one({i: rng.choice(["error", "torn"]), j: rng.choice(KINDS)}, exdev)
    sc_digest = hashlib.sha1(json.dumps(sc, sort_keys=True).encode()).hexdigest()[:10]
    stats["scenario"] = sc
    stats["scenario_digest"] = sc_digest
    return stats


# ------------------------------------------------------------------- driver
def _worker(args):
    seed, tier = args
    import faulthandler
    faulthandler.enable()
    try:
        return run_scenario(seed, tier)
    except Exception:
        return {"harness_error": traceback.format_exc()[-3000:], "seed": seed}


def run(tier, seed):
    from .. import check, known
    from concurrent.futures import ProcessPoolExecutor
    import multiprocessing

    t0 = time.time()
    nq, wq, nt, wt = check.BUDGET["C17"]
    n, wall = (nq, wq) if tier == "quick" else (nt, wt)
    n = int(os.environ.get("PROVSIM_RUNS", n))
    seed0 = seed * 1000003
    seeds = [seed0 + i for i in range(n)]
    agg = {"executions": 0, "fired": {}, "outcomes": {}, "instants": 0, "leaked_temp_files": 0,
           "labels": {}, "scenarios": 0, "name_classes": {}, "formats": {}}
    distinct = set()
    violations = []
    herrs = []
    samples = []
    ctx = multiprocessing.get_context("fork")
    with ProcessPoolExecutor(max_workers=check.NPROC, mp_context=ctx) as ex:
        futs = [ex.submit(_worker, (s, tier)) for s in seeds]
        wall = float(os.environ.get("PROVSIM_WALL", wall))
        capped = False
        for f in futs:
            if time.time() - t0 > wall and not capped:
                capped = True  # wall cap reached: everything not yet started is dropped (never a pass/fail)
                for g in reversed(futs):
                    g.cancel()
            if f.cancelled():
                agg["not_run_wall_cap"] = agg.get("not_run_wall_cap", 0) + 1
                continue
            remaining = max(5.0, wall * 3 - (time.time() - t0))
            try:
                st = f.result(timeout=remaining)
            except Exception as e:
                herrs.append("worker failed: %r" % (e,))
                continue
            if "harness_error" in st:
                herrs.append("seed %s: %s" % (st["seed"], st["harness_error"]))
                continue
            agg["scenarios"] += 1
            for k in ("executions", "instants", "leaked_temp_files"):
                agg[k] += st[k]
            agg["retry_failed"] = agg.get("retry_failed", 0) + st.get("retry_failed", 0)
            agg["short_writes"] = agg.get("short_writes", 0) + st.get("short_writes", 0)
            agg["leaked_plain"] = agg.get("leaked_plain", 0) + st.get("leaked_after_plain_failure", 0)
            for k in ("fired", "outcomes", "labels"):
                for kk, vv in st[k].items():
                    agg[k][kk] = agg[k].get(kk, 0) + vv
            sc = st["scenario"]
            nc = NAME_CLASSES[sc["name"]][0]
            agg["name_classes"][nc] = agg["name_classes"].get(nc, 0) + 1
            agg["formats"][sc["fmt"]] = agg["formats"].get(sc["fmt"], 0) + 1
            distinct.update(st["distinct"])
            violations.extend(st["violations"])
            if len(samples) < 3:
                samples.append({"scenario": sc, "fault_free_trace_labels": st["labels"]})
    new, attributed, seen = [], {}, set()
    for v in violations:
        fid = known.attribute("C17", v)
        if fid is not None:
            attributed.setdefault(fid, []).append(v)
            continue
        key = json.dumps(v["signature"]) + str(v["facts"].get("name_class")) + str(v["exdev"])
        if key in seen:
            continue
        seen.add(key)
        new.append(v)
    reported = []
    for v in new[:8]:
        path = check.write_replay("C17", v)
        ok = check.verify_replay(path)
        if not ok:
            herrs.append("a violation was seen but did not reproduce in a fresh interpreter (not reported): %s" % path)
            continue
        reported.append((v, path))
    wall_s = time.time() - t0
    if agg["executions"] == 0:
        herrs.append("no executions")
    dropped = agg.get("not_run_wall_cap", 0)
    if agg["scenarios"] < max(check.NPROC, len(seeds) // 10):
        # a run that covered next to nothing is not a pass (the machine was too loaded)
        herrs.append("only %d of %d scenarios ran within the wall cap of %ds" % (agg["scenarios"], len(seeds), wall))
    if agg["executions"]:
        for kind in ("error", "torn", "crash"):
            if not any(k.startswith(kind + "@") for k in agg["fired"]):
                herrs.append("fault kind %r never fired" % kind)
        for fmt in ("json", "xml", "rdf", "provn"):
            if agg["scenarios"] >= 200 and not agg["formats"].get(fmt):
                herrs.append("no scenario for format %r" % fmt)
    nfired = sum(agg["fired"].values())
    if nfired == 0:
        herrs.append("no fault ever fired")
    ev = {
        "property_id": "C17", "tier": tier, "seed": seed, "level": "fault_enumeration",
        "coverage": {
            "evaluations": agg["executions"],
            "distinct_nontrivial": len(distinct),
            "rule": C17.rule,
            "samples": samples or [{"note": "none"}],
            "scenarios": agg["scenarios"],
            "scenarios_not_run_because_of_the_wall_cap": agg.get("not_run_wall_cap", 0),
            "short_writes_on_raw_files": agg.get("short_writes", 0),  # 0 unless the code opens a file with buffering=0
            "instants_in_fault_free_traces": agg["instants"],
            "faults_fired_by_kind_and_instant": agg["fired"],
            "faults_fired_total": nfired,
            "instant_labels": agg["labels"],
            "outcomes": agg["outcomes"],
            "executions_leaving_stale_temp_files": agg["leaked_temp_files"],
            # of those: the call raised, and neither a kill nor the clean-up (unlink) was the injected fault;
            # C17 does not forbid it (second audit), so it is counted, not alarmed - 0 on the tree as repaired
            "executions_that_raised_with_clean_up_unhindered_and_left_temp_files": agg.get("leaked_plain", 0),
            "fault_free_retries_after_a_fault_that_did_not_succeed": agg.get("retry_failed", 0),
            "file_name_classes": agg["name_classes"],
            "formats": agg["formats"],
            "executions_per_hour": int(agg["executions"] / max(wall_s, 1e-9) * 3600),
            "components": check.COMPONENTS,
            "known_findings_reconfirmed": {k: len(v) for k, v in attributed.items()},
            "exhaustive": False,
            "exhaustive_note": "per scenario every instant of the fault-free trace x 3 fault kinds x {same device, EXDEV} is enumerated (traces longer than 40 instants: first 6, last 8 and 20 seeded instants)",
        },
        "assumptions": C17.assumptions,
        "wall_s": round(wall_s, 2),
        "violations": len(reported),
    }
    os.makedirs(check.evidence_dir(), exist_ok=True)
    tmp = os.path.join(check.evidence_dir(), ".C17.json.tmp")
    with open(tmp, "w") as f:
        json.dump(ev, f, indent=1, default=repr)
    os.replace(tmp, os.path.join(check.evidence_dir(), "C17.json"))
    for fid, vs in sorted(attributed.items()):
        print("KNOWN-FINDING: property=C17 %s: %s (%d occurrences this run)" % (fid, known.describe(fid), len(vs)))
    for v, path in reported:
        print("VIOLATION property=C17 replay=%s" % path)
        print("  signature=%s seed=%s plan=%s exdev=%s name_class=%s" % (
            json.dumps(v["signature"]), v["seed"], v["plan"], v["exdev"], v["facts"].get("name_class")))
        d = dict(v["detail"])
        print("  detail=%s" % json.dumps({k: d[k] for k in d if k not in ("scenario",)}, default=repr)[:1200])
    for he in herrs[:5]:
        print("HARNESS-ERROR: %s" % he[:3000])
    if dropped:
        print("C17 %s: %d of %d scenarios were not run (wall cap %ds)" % (tier, dropped, len(seeds), wall))
    print("C17 %s: scenarios=%d executions=%d faults_fired=%d distinct=%d violations=%d known=%d wall=%.1fs" % (
        tier, agg["scenarios"], agg["executions"], nfired, len(distinct), len(reported), len(attributed), wall_s))
    if reported:
        return 1
    if herrs:
        return 2
    return 0


def replay_custom(rec):
    seed = rec["seed"]
    sc = scenario(seed)
    d, _ = build_doc(seed)
    if sc["big"] and sc["fmt"] == "xml":
        for i in range(600):
            d.entity("big:e%d" % i, {"big:attr": "x" * 40}) if i else d.add_namespace("big", "http://big.example/")
    ref = reference_bytes(d, sc)
    plan = {int(k): v for k, v in rec["plan"].items()}
    try:
        run_once(d, sc, plan, rec["exdev"], ref)
    except Violation as v:
        same = v.signature == rec["signature"]
        print("REPLAY property=C17 seed=%s signature=%s same_as_recorded=%s" % (seed, json.dumps(v.signature), same))
        print(json.dumps(v.detail, indent=1, default=repr)[:3000])
        return 1
    print("REPLAY property=C17 seed=%s: no violation (recorded %s)" % (seed, rec["signature"]))
    return 0
