"""C18 - identifier lookup and typed listing always agree with the record list."""
from .. import boot  # noqa: F401
from ..core import Oracle, Violation
from ..ops import wchoice
from .. import observe
from prov.identifier import Identifier, Namespace, QualifiedName
from prov.model import PROV_REC_CLS, ProvElement, ProvRelation

CLASSES = [ProvElement, ProvRelation] + [PROV_REC_CLS[k] for k in PROV_REC_CLS]
ABSENT = ["http://nowhere.example/absent", "urn:x:absent-1"]
BARE = ["x", "e1", "b"]


def same_objects(a, b):
    return len(a) == len(b) and all(x is y for x, y in zip(a, b))


class C18(Oracle):
    # reach probes that must not be stuck at zero (else the workload is not reaching what
    # the design says it reaches): the check then exits 2
    required_probes = {"quick": ['lookup_multi_record_identifier', 'bare_lookup_hit'], "thorough": ['lookup_multi_record_identifier', 'bare_lookup_hit']}
    prop = "C18"

    def swarm(self, rng):
        w = {
            "doc": 1, "bundle": 3, "fbundle": rng.choice([0, 1]), "add_ns": 5,
            "set_default": rng.choice([0, 1, 2]), "rec": 22, "add_attrs": 2,
            "add_record": rng.choice([0, 3]), "update": rng.choice([0, 2, 4]),
            "add_bundle": rng.choice([0, 2]), "doc_from": rng.choice([0, 1]),
            "unified": rng.choice([0, 2]), "flattened": rng.choice([0, 2]),
            "roundtrip": rng.choice([0, 1, 2]), "get_record": 3, "get_records": 1,
        }
        prof = {
            "w": w,
            "max_docs": rng.choice([1, 2, 3]),
            "p_reuse_id": rng.choice([0.2, 0.5, 0.7]),
            "p_anon": rng.choice([0.2, 0.5, 0.8]),
            "p_clash": rng.choice([0.1, 0.3, 0.6]),
            "p_extra": rng.choice([0.1, 0.5]),
            "fmt": rng.choice(["json", "xml"]),
            "defaults": rng.random() < 0.7,
        }
        return {"profile": prof, "steps": rng.randrange(8, 45)}

    def nontrivial(self, w):
        return self.counters.get("lookups_nonempty", 0) > 0

    def after(self, w, i, op, out):
        if op[0] == "get_record" and out.status == "ok":
            self.count("explicit_get_record")
        for ch, c in w.all_containers():
            self.check_container(ch, c)

    def check_container(self, ch, c):
        recs = c.get_records()
        # records is an independent copy
        lst = c.records
        if lst is c.records:
            raise Violation("C18", "records-copy", "same-list", {"container": ch})
        n = len(recs)
        lst.append(None)
        if len(c.get_records()) != n or len(c.records) != n:
            raise Violation("C18", "records-copy", "aliased-list", {"container": ch})
        if not same_objects(c.records, recs):
            raise Violation("C18", "records-copy", "records-differs-from-get_records", {"container": ch})
        # typed listing
        for cls in CLASSES:
            got = list(c.get_records(cls))
            exp = [r for r in recs if isinstance(r, cls)]
            self.count("typed_listings")
            # exactly the instances of cls (order is promised for get_record only)
            if sorted(map(id, got)) != sorted(map(id, exp)):
                raise Violation(
                    "C18", "typed-listing", cls.__name__,
                    {"container": ch, "got": len(got), "expected": len(exp)},
                )
        # lookups for every identifier present
        by_uri = {}
        order = []
        for r in recs:
            ident = r.identifier
            if ident is None:
                continue
            u = ident.uri
            if u not in by_uri:
                by_uri[u] = []
                order.append((u, ident))
            by_uri[u].append(r)
        for u, ident in order:
            exp = by_uri[u]
            spellings = [("object", ident), ("printed", str(ident)), ("full-uri", u)]
            if isinstance(ident, QualifiedName):
                ns = ident.namespace
                spellings.append(
                    ("equal-ns-copy", QualifiedName(Namespace(ns.prefix, ns.uri), ident.localpart))
                )
            for label, x in spellings:
                got = c.get_record(x)
                self.count("lookups")
                if label == "printed":
                    # what 'prefix:local' denotes here is the container's own resolution
                    # (its correctness is C03's clause (c), not C18's)
                    q = c.valid_qualified_name(x)
                    exp = [] if q is None else by_uri.get(q.uri, [])
                else:
                    exp = by_uri[u]
                if len(exp) > 0:
                    self.count("lookups_nonempty")
                if len(exp) > 1:
                    self.probe("lookup_multi_record_identifier")
                if got is None or not same_objects(list(got), exp):
                    facts = self.facts(c, ident, label)
                    raise Violation(
                        "C18", "lookup", label,
                        {
                            "container": ch, "identifier": u, "printed": str(ident),
                            "spelling": label,
                            "got": None if got is None else [repr(observe.rec_obs(r)) for r in got],
                            "expected": [repr(observe.rec_obs(r)) for r in exp],
                        },
                        facts,
                    )
        if c.is_bundle() and c.document is not None:
            own = set(by_uri)
            for r in c.document.get_records():
                ident = r.identifier
                if ident is None or ident.uri in own:
                    continue
                for label, x in (("full-uri", ident.uri),):
                    got = c.get_record(x)
                    self.count("lookups_parent_only")
                    if got:
                        raise Violation("C18", "lookup", "parent-record-returned-by-bundle",
                                        {"container": ch, "identifier": ident.uri, "spelling": label})
                break
        # bare local names: denote <default namespace in scope> + local, or nothing
        for local in BARE:
            # "the URI x denotes" is what the container itself resolves x to (whether that is
            # the right URI is C03's business, not C18's)
            own_default = c.get_default_namespace()
            if own_default is not None:
                # the container shows a default namespace of its own: a bare name denotes
                # <that namespace> + local, whatever any internal cache says
                d = own_default
                exp = by_uri.get(own_default.uri + local, [])
            else:
                q = c.valid_qualified_name(local)
                d = None if q is None else q.namespace
                exp = [] if q is None else by_uri.get(q.uri, [])
            got = c.get_record(local)
            self.count("lookups_bare")
            if exp:
                self.probe("bare_lookup_hit")
            if not same_objects(list(got or []), exp):
                raise Violation("C18", "lookup", "bare-local",
                                {"container": ch, "local": local, "default": None if d is None else d.uri,
                                 "got": len(got or []), "expected": len(exp)},
                                {"spelling": "bare", "default": None if d is None else d.uri})
        for u in ABSENT:
            got = c.get_record(u)
            self.count("lookups_absent")
            if got:
                raise Violation("C18", "lookup", "absent-found", {"container": ch, "identifier": u})
        if c.get_record(None):
            raise Violation("C18", "lookup", "none-found-something", {"container": ch})

    @staticmethod
    def facts(c, ident, label):
        """Facts for known-finding attribution (see known.py)."""
        f = {"spelling": label}
        if isinstance(ident, QualifiedName):
            f["prefix"] = ident.namespace.prefix
            f["ns_uri"] = ident.namespace.uri
            f["local"] = ident.localpart
            own = {ns.prefix: ns.uri for ns in c.namespaces}
            d = c.get_default_namespace()
            f["own_binding"] = own.get(ident.namespace.prefix) if ident.namespace.prefix else (
                None if d is None else d.uri)
            f["is_child"] = bool(c.is_bundle() and c.document is not None)
        return f
