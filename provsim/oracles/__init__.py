"""Per-property oracles."""
import importlib

CLAIMED = ["C01", "C02", "C03", "C04", "C05", "C07", "C08", "C09", "C12", "C13", "C16", "C17", "C18"]


def get_oracle(prop):
    mod = importlib.import_module("provsim.oracles.%s" % prop.lower())
    return getattr(mod, prop.upper())
