"""C05 - records stay in normal form: formal attributes single-valued, typed, normalised.

Per-step invariant over every live record + a transition model (``NormModel``) for
each constructing / attribute-adding operation, written from the property text.
"""
import datetime

from .. import boot  # noqa: F401
from ..core import Oracle, Violation
from .. import observe, pools
from ..refmodel import FORMAL_URIS, _same_py, _differ
from ..world import parse_dt
from prov.identifier import Identifier, Namespace, QualifiedName
from prov.model import Literal, ProvException, ProvRecord
from prov.constants import PROV

TIME_URIS = {pools.PROV_URI + t for t in pools.TIME_FORMALS}
QNAME_URIS = FORMAL_URIS - TIME_URIS
MEMBER_ENTITY = pools.PROV_URI + "entity"
MEMBER_COLLECTION = pools.PROV_URI + "collection"

UNKNOWN = object()


class WildQN(object):
    """A qualified name whose URI the model does not predict (string spelling)."""

    def __repr__(self):
        return "<any qualified name>"


NATIVE = {
    "int": int, "long": int, "double": float, "string": str,
    "boolean": lambda s: {"true": True, "1": True, "false": False, "0": False}[s.lower()],
    "anyURI": Identifier, "dateTime": parse_dt,
}


def name_uri(w, spec):
    if spec[0] == "qn":
        return spec[2] + spec[3]
    if spec[0] == "nsobj":
        ns = w.nsobjs.get((spec[1], spec[2]))
        return UNKNOWN if ns is None else ns.uri + spec[3]
    if spec[0] == "rec":
        try:
            r = w.rec(spec[1])
        except Exception:
            return UNKNOWN
        return UNKNOWN if r.identifier is None else r.identifier.uri
    return UNKNOWN


def model_qn(uri):
    return QualifiedName(Namespace("m", uri), "")


def expected_value(w, attr_uri, vspec):
    """The Python value the record must hold for this (attribute, supplied value)."""
    t = vspec[0]
    if attr_uri in QNAME_URIS:
        if t in ("qn", "nsobj", "rec"):
            u = name_uri(w, vspec)
            return UNKNOWN if u is UNKNOWN else model_qn(u)
        if t in ("pl", "bare", "full", "ident"):
            return WildQN()
        return UNKNOWN  # not a reference: whether it is refused is not modelled
    if attr_uri in TIME_URIS:
        if t in ("dt", "dts"):
            return parse_dt(vspec[1])
        return UNKNOWN
    if t == "s":
        return vspec[1]
    if t == "i":
        return int(vspec[1])
    if t == "f":
        return float(vspec[1])
    if t == "b":
        return bool(vspec[1])
    if t == "dt":
        return parse_dt(vspec[1])
    if t == "dts":
        return vspec[1]
    if t == "uri":
        return Identifier(vspec[1])
    if t in ("qn", "nsobj"):
        u = name_uri(w, vspec)
        return UNKNOWN if u is UNKNOWN else model_qn(u)
    if t in ("pl", "bare", "full"):
        return w.name(vspec)  # a plain string stays a string
    if t == "rec":
        u = name_uri(w, vspec)
        return UNKNOWN if u is UNKNOWN else model_qn(u)
    if t == "lit":
        text, dts, lang = vspec[1], vspec[2], vspec[3]
        if lang:
            return Literal(text, PROV["InternationalizedString"], lang)
        if dts is None:
            return text
        du = name_uri(w, dts)
        if du is UNKNOWN:
            return UNKNOWN
        if du.startswith(pools.XSD_URI) and du[len(pools.XSD_URI):] in NATIVE:
            if text in pools.UNPYTHONABLE_DATETIMES:
                return UNKNOWN  # no Python value exists: how it is stored is not promised
            return NATIVE[du[len(pools.XSD_URI):]](text)
        if du.startswith(pools.XSD_URI):
            return UNKNOWN  # an XSD type outside the property's list: how it is stored is not promised
        return Literal(text, model_qn(du), None)
    return UNKNOWN


def state_of(r):
    st = {}
    for a, v in r.attributes:
        st.setdefault(a.uri, []).append(v)
    return st


def nkey(v):
    k = observe.vkey(v)
    if k[0] == "lit" and k[3] is not None:
        return ("lit", k[1], None, k[3])  # language-tagged: only text and tag are promised
    return k


def key_state(st):
    return sorted(((a, nkey(v)) for a, vs in st.items() for v in vs), key=repr)


def matches(exp_state, r):
    """Does the record's actual state equal the expected one (wildcards allowed)?"""
    act = state_of(r)
    if set(k for k, v in act.items() if v) != set(k for k, v in exp_state.items() if v):
        return False
    for a, evs in exp_state.items():
        avs = act.get(a, [])
        if any(isinstance(e, WildQN) for e in evs):
            if len(avs) != len(evs) or not all(isinstance(x, QualifiedName) for x in avs):
                return False
            continue
        ek = sorted((nkey(e) for e in evs), key=repr)
        ak = sorted((nkey(x) for x in avs), key=repr)
        if ek != ak:
            return False
    return True


def own_formal_uris(kind_or_record):
    if isinstance(kind_or_record, ProvRecord):
        return {a.uri for a in kind_or_record.FORMAL_ATTRIBUTES}
    return {pools.PROV_URI + f for f in pools.KINDS[kind_or_record][1]}


def apply_pairs(pre, pairs, own=None):
    """Transition model of add_attributes.  Returns (status, states) where states is the
    list of acceptable post states (wildcards possible)."""
    post = {a: list(vs) for a, vs in pre.items()}
    names = [a for a, _ in pairs]
    multi_member = MEMBER_COLLECTION in names and names.count(MEMBER_ENTITY) > 1
    own = FORMAL_URIS if own is None else own
    if any(a in FORMAL_URIS and a not in own for a, _ in pairs):
        # a PROV formal attribute that is not formal for *this* record kind: whether the
        # single-value rule extends to it is not promised
        return ("unknown", [post])
    for a, v in pairs:
        if v is None:
            continue
        if a in own and post.get(a) and not (multi_member and a == MEMBER_ENTITY):
            ex = post[a][0]
            if isinstance(v, WildQN) or isinstance(ex, WildQN):
                return ("unknown", [post])
            if _differ(v, ex):
                return ("refused", [dict((k, list(x)) for k, x in pre.items()), post])
            continue
        vals = post.setdefault(a, [])
        if isinstance(v, WildQN):
            vals.append(v)
        elif not any((not isinstance(x, WildQN)) and _same_py(v, x) for x in vals):
            vals.append(v)
    return ("ok", [post])


class C05(Oracle):
    # reach probes that must not be stuck at zero (else the workload is not reaching what
    # the design says it reaches): the check then exits 2
    required_probes = {"quick": ['second_different_formal_value_refused', 'same_formal_value_readded_noop', 'literal_entry_path', 'time_as_iso_string', 'set_time_iso_string', 'creation_conflict_refused', 'reference_as_record_object', 'subtype_factory', 'add_asserted_type_typed_literal'], "thorough": ['second_different_formal_value_refused', 'same_formal_value_readded_noop', 'literal_entry_path', 'time_as_iso_string', 'set_time_iso_string', 'creation_conflict_refused', 'reference_as_record_object', 'subtype_factory', 'add_asserted_type_typed_literal']}
    prop = "C05"

    def swarm(self, rng):
        w = {
            "doc": 1, "bundle": 2, "add_ns": 4, "set_default": rng.choice([0, 1]),
            "rec": 18, "add_attrs": 6, "set_time": 3, "add_type": 2, "resolve": 0,
            "export": rng.choice([0, 0, 1]), "peek": rng.choice([0, 1]), "unified": rng.choice([0, 0, 1]),
        }
        prof = {
            "w": w,
            "max_docs": 1,
            "p_reuse_id": rng.choice([0.2, 0.5]),
            "p_clash": rng.choice([0.0, 0.2, 0.5]),
            "p_extra": rng.choice([0.4, 0.8]),
            "name_kinds": {"nsobj": 5, "qn": 5, "pl": rng.choice([0, 1]), "bare": rng.choice([0, 0.5]),
                           "full": rng.choice([0, 0.5])},
            "formal_as": {"nsobj": 3, "qn": 3, "pl": 2, "rec": 3, "full": 1, "bare": 1},
            "value_kinds": {"s": 4, "i": 3, "f": 2, "b": 2, "dt": 2, "uri": 2, "qnv": 3, "lang": 2,
                            "litf": 2, "litn": 5},
            "time_as_string": rng.choice([0.3, 0.6]),
            "vias": {"new_record": 2, "factory": 3, "conv": 2},
            "multi_value": rng.choice([0.2, 0.6]),
            "p_subfactory": rng.choice([0.0, 0.3]),
            "p_value_type": 0.35,  # add_asserted_type with ordinary values and typed literals (round 6)
        }
        return {"profile": prof, "steps": rng.randrange(8, 40), "p_formal_readd": rng.choice([0.1, 0.25])}

    # generator additions: re-add the same / a different formal value -------------
    def next_op(self, gen, world, i):
        rng = gen.rng
        if gen.formals and rng.random() < self.cfg.get("p_formal_readd", 0.15):
            rh = rng.choice(list(gen.formals))
            ch, kind, formal = gen.formals[rh]
            names = pools.KINDS[kind][1]
            if names:
                f = rng.choice(names)
                mode = rng.randrange(4)
                if mode == 0 and f in formal:
                    v = formal[f]  # the very same spec again
                elif mode == 1 and f in formal and formal[f][0] in ("dt", "dts"):
                    v = ["dts" if formal[f][0] == "dt" else "dt", formal[f][1]]  # same instant, other form
                else:
                    v = gen.formal_value(ch, f, kind)
                pairs = [[["qn", "prov", pools.PROV_URI, f], v]]
                dup_entity = False
                if rng.random() < 0.25:
                    # a second value for the same formal attribute within the same call; for
                    # prov:entity only without a prov:collection key in the call (with one it
                    # would be the disclaimed multi-member path)
                    pairs.append([["qn", "prov", pools.PROV_URI, f], gen.formal_value(ch, f, kind)])
                    dup_entity = f == "entity"
                if rng.random() < 0.4:
                    pairs = gen.extras(ch, 1) + pairs
                if rng.random() < 0.2:
                    pairs = pairs + gen.extras(ch, 1)
                if kind != "membership" and rng.random() < 0.1 and not dup_entity:
                    # a prov:collection key on a non-collection record must not disable the guard
                    pairs = [[["qn", "prov", pools.PROV_URI, "collection"], gen.formal_value(ch, "collection", kind)]] + pairs
                return ["add_attrs", ["h", rh], pairs, "pairs" if rng.random() < 0.6 else "dict"]
        op = gen.next_op(world)
        if op[0] == "rec" and rng.random() < 0.12:
            # a formal attribute also (or only) given among the "other" attributes of the
            # creating call: same value -> no-op, different value -> refused
            kind = op[3]
            names = pools.KINDS[kind][1]
            if names:
                f = rng.choice(names)
                if f in op[5] and rng.random() < 0.4:
                    v = op[5][f]
                else:
                    v = gen.formal_value(op[2], f, kind)
                pair = [["qn", "prov", pools.PROV_URI, f], v]
                has_coll = "collection" in op[5] or any(a[0] == "qn" and a[1] == "prov" and a[3] == "collection" for a, _ in op[6])
                if f == "entity" and (has_coll or f in op[5]):
                    # several prov:entity values next to a prov:collection key in one call is
                    # the PROV-JSON compatibility path C05 explicitly does not claim
                    return op
                op[6] = list(op[6]) + [pair]
                if rng.random() < 0.3 and f != "entity":
                    op[6].append([["qn", "prov", pools.PROV_URI, f], gen.formal_value(op[2], f, kind)])
                op[8] = "pairs"
                if op[7] == "conv" and not pools.CONVENIENCE.get(kind, (0, 0, 0, False))[3]:
                    op[7] = "new_record"
                if op[7] == "factory" and not pools.FACTORIES[kind][3]:
                    op[7] = "new_record"
        return op

    def nontrivial(self, w):
        return self.counters.get("transition_checks", 0) > 0

    # ---------------------------------------------------------------------- hooks
    def before(self, w, i, op):
        self.pre = None
        k = op[0]
        try:
            if k == "add_attrs":
                r = w.rec(op[1])
                self.pre = (r, state_of(r))
            elif k in ("set_time", "add_type"):
                r = w.rec(op[1])
                self.pre = (r, state_of(r))
        except Exception:
            self.pre = None

    def after(self, w, i, op, out):
        k = op[0]
        if out.status != "skip":
            if k == "rec":
                self.chk_rec(w, op, out)
            elif k == "add_attrs" and self.pre is not None:
                self.chk_add_attrs(w, op, out)
            elif k == "set_time" and self.pre is not None:
                self.chk_set_time(w, op, out)
            elif k == "add_type" and self.pre is not None:
                self.chk_add_type(w, op, out)
        self.invariant(w)

    # ------------------------------------------------------------------ invariant
    def invariant(self, w):
        seen = set()
        for ch, c in w.all_containers():
            for r in c.get_records():
                if id(r) not in seen:
                    seen.add(id(r))
                    self.normal_form(r, ch)
        for rh, r in w.records.items():
            if id(r) not in seen:
                seen.add(id(r))
                self.normal_form(r, rh)

    def normal_form(self, r, where):
        self.count("normal_form_checks")
        st = state_of(r)
        own = own_formal_uris(r)
        for a, vs in st.items():
            if a in own:
                if len(vs) > 1:
                    raise Violation("C05", "single-valued", a.rsplit("#", 1)[-1],
                                    {"record": repr(observe.rec_obs(r)), "where": where, "attribute": a,
                                     "values": [repr(observe.vkey(v)) for v in vs]},
                                    {"attr": a, "type": r.get_type().uri})
                v = vs[0]
                if a in QNAME_URIS and not isinstance(v, QualifiedName):
                    raise Violation("C05", "typed", "reference-not-qualified-name",
                                    {"record": repr(observe.rec_obs(r)), "where": where, "attribute": a,
                                     "value": repr(v)})
                if a in TIME_URIS and not isinstance(v, datetime.datetime):
                    raise Violation("C05", "typed", "time-not-datetime",
                                    {"record": repr(observe.rec_obs(r)), "where": where, "attribute": a,
                                     "value": repr(v)})
        # public views agree with the attribute list
        fa = r.formal_attributes
        for (name, val), arg in zip(fa, r.args):
            vs = st.get(name.uri, [])
            if (val is None) != (len(vs) == 0) or (vs and val is not vs[0] and val != vs[0]) or (
                    arg is not val and arg != val):
                raise Violation("C05", "views", "formal_attributes-disagree",
                                {"record": repr(observe.rec_obs(r)), "attribute": name.uri})

    # ---------------------------------------------------------------- transitions
    def pairs_model(self, w, pairs):
        out = []
        for a, v in pairs:
            au = name_uri(w, a)
            if au is UNKNOWN:
                return None
            ev = expected_value(w, au, v)
            if ev is UNKNOWN:
                return None
            out.append((au, ev))
        return out

    def chk_rec(self, w, op, out):
        _, rh, ch, kind, idspec, formal, extra, via, form = op
        names = pools.KINDS[kind][1]
        pairs = []
        for f in names:
            if f in formal:
                pairs.append([["qn", "prov", pools.PROV_URI, f], formal[f]])
        pairs += list(extra)
        if out.info.get("subtype"):
            # revision()/quotation()/primary_source()/collection(): the base record plus the type
            pairs.append([["qn", "prov", pools.PROV_URI, "type"],
                          ["qn", "prov", pools.PROV_URI, out.info["subtype"]]])
            self.probe("subtype_factory")
        mp = self.pairs_model(w, pairs)
        if mp is None:
            self.count("transition_unmodelled")
            return
        status, states = apply_pairs({}, mp, own_formal_uris(kind))
        if status == "unknown":
            self.count("transition_unmodelled")
            return
        is_el = pools.KINDS[kind][2]
        id_uri = None if idspec is None else name_uri(w, idspec)
        if id_uri is UNKNOWN:
            self.count("transition_unmodelled")
            return
        self.count("transition_checks")
        if status == "refused":
            self.probe("creation_conflict_refused")
            if not out.refused:
                raise Violation("C05", "refusal", "creation-conflict-accepted",
                                {"operation": op, "outcome": out.summary()})
            return
        if is_el and id_uri is None:
            return
        if out.status != "ok" and any(isinstance(v, WildQN) for _, v in mp):
            self.count("transition_unmodelled")  # a string spelling may be unresolvable here
            return
        if out.status != "ok" or out.result is None:
            raise Violation("C05", "creation", "raised",
                            {"operation": op, "error": repr(out.exc)}, {"exc": type(out.exc).__name__})
        r = out.result
        exp = states[0]
        if kind in ("activity",) and False:
            pass
        # revision/quotation/... factories are not used; collection() neither
        if observe._uri(r.identifier) != id_uri:
            raise Violation("C05", "creation", "identifier", {"operation": op, "got": observe._uri(r.identifier)})
        if r.get_type().uri != pools.PROV_URI + pools.KINDS[kind][0]:
            raise Violation("C05", "creation", "type", {"operation": op, "got": r.get_type().uri})
        if not matches(exp, r):
            raise Violation("C05", "creation", "state",
                            {"operation": op, "expected": repr(key_state(exp)), "got": repr(key_state(state_of(r)))},
                            {"via": via})
        if any(v[0] == "lit" for _, v in pairs):
            self.probe("literal_entry_path")
        if any(v[0] == "dts" for _, v in pairs):
            self.probe("time_as_iso_string")
        if any(v[0] == "rec" for _, v in pairs):
            self.probe("reference_as_record_object")

    def chk_add_attrs(self, w, op, out):
        r, pre = self.pre
        mp = self.pairs_model(w, op[2])
        if mp is None:
            self.count("transition_unmodelled")
            return
        status, states = apply_pairs(pre, mp, own_formal_uris(r))
        if status == "unknown":
            self.count("transition_unmodelled")
            return
        self.count("transition_checks")
        if status == "refused":
            self.probe("second_different_formal_value_refused")
            if not out.refused:
                raise Violation("C05", "refusal", "different-formal-value-accepted",
                                {"operation": op, "outcome": out.summary(),
                                 "before": repr(key_state(pre)), "after": repr(key_state(state_of(r)))},
                                {"has_collection_key": any(a == MEMBER_COLLECTION for a, _ in mp)})
            return  # what else of the call was applied is unspecified; the invariant still holds
        if out.status != "ok" and any(isinstance(v, WildQN) for _, v in mp):
            self.count("transition_unmodelled")
            return
        if out.status != "ok":
            raise Violation("C05", "add_attributes", "raised",
                            {"operation": op, "error": repr(out.exc), "before": repr(key_state(pre))},
                            {"exc": type(out.exc).__name__})
        if not matches(states[0], r):
            raise Violation("C05", "add_attributes", "state",
                            {"operation": op, "before": repr(key_state(pre)),
                             "expected": repr(key_state(states[0])), "got": repr(key_state(state_of(r)))})
        if any(a in FORMAL_URIS and pre.get(a) for a, _ in mp):
            self.probe("same_formal_value_readded_noop")

    def chk_set_time(self, w, op, out):
        r, pre = self.pre
        self.count("transition_checks")
        exp = {a: list(v) for a, v in pre.items()}
        differs = False
        for spec, f in ((op[2], "startTime"), (op[3], "endTime")):
            if spec is not None:
                new = parse_dt(spec[1])
                cur = pre.get(pools.PROV_URI + f)
                if cur and _differ(cur[0], new):
                    differs = True
                exp[pools.PROV_URI + f] = [new]
                if spec[0] == "dts":
                    self.probe("set_time_iso_string")
        if out.status != "ok":
            # a *different* time for a slot that already holds one may be refused (the
            # property's general rule) or replace it (what a setter does); anything else
            # must succeed
            if differs and out.refused:
                self.probe("set_time_refused_different_value")
                return
            raise Violation("C05", "set_time", "raised", {"operation": op, "error": repr(out.exc)})
        if not matches(exp, r):
            raise Violation("C05", "set_time", "state",
                            {"operation": op, "expected": repr(key_state(exp)), "got": repr(key_state(state_of(r)))})

    def chk_add_type(self, w, op, out):
        r, pre = self.pre
        self.count("transition_checks")
        ev = expected_value(w, pools.PROV_URI + "type", op[2])
        if ev is UNKNOWN:
            self.count("transition_unmodelled")
            return
        if op[2][0] == "lit" and op[2][2] is not None:
            self.probe("add_asserted_type_typed_literal")
        status, states = apply_pairs(pre, [(pools.PROV_URI + "type", ev)])
        if out.status != "ok" or not matches(states[0], r):
            raise Violation("C05", "add_asserted_type", "state", {"operation": op, "outcome": out.summary()})
