"""C12 - derived documents and copied records share no mutable state with sources.

Write-set non-interference: every operation declares the set of objects it may
change; after the operation every other live object (document, bundle, record)
must have an identical strict snapshot (content in order + registered namespaces +
default namespace + bundle identifiers).
"""
from .. import boot  # noqa: F401
from ..core import Oracle, Violation
from .. import observe
from prov.model import ProvDocument, ProvRecord

DERIVING = ("copy", "add_record", "doc_from", "update", "add_bundle", "unified", "flattened", "roundtrip")
MUTATORS = ("add_attrs", "set_time", "add_type", "rec", "add_ns", "set_default", "bundle")


def container_snapshot(c):
    bids = ()
    if c.is_document():
        bids = tuple(observe._uri(b.identifier) for b in c.bundles)
    return (observe.cont_obs(c), observe.ns_obs(c), bids, observe._uri(c.identifier) if c.is_bundle() else None)


def snapshot(w):
    snap = {}
    for h, c in w.all_containers():
        snap[id(c)] = ("container", h, container_snapshot(c))
    for rh, r in w.records.items():
        if id(r) not in snap:
            snap[id(r)] = ("record", rh, observe.rec_obs(r))
    return snap


def write_set(w, op):
    """ids of the objects the operation is allowed to change."""
    k = op[0]
    ws = set()

    def add_cont(h):
        try:
            c = w.cont(h)
        except Exception:
            return
        ws.add(id(c))
        if c.is_bundle() and c.document is not None:
            # whether an operation on a bundle may also touch its own document (say, to
            # declare a prefix there) is not what C12 is about
            ws.add(id(c.document))

    def add_rec(ref):
        try:
            r = w.rec(ref)
        except Exception:
            return
        ws.add(id(r))
        if r.bundle is not None:
            ws.add(id(r.bundle))
            if r.bundle.is_bundle() and r.bundle.document is not None:
                ws.add(id(r.bundle.document))

    if k in ("add_ns", "set_default", "resolve", "get_record"):
        add_cont(op[1])
    elif k == "bundle":
        add_cont(op[2])
    elif k == "rec":
        add_cont(op[2])
    elif k in ("add_attrs", "set_time", "add_type"):
        add_rec(op[1])
    elif k == "peek" and op[2] == "attribute":
        try:
            r = w.rec(op[1])
            if r.bundle is not None:
                ws.add(id(r.bundle))  # get_attribute() resolves the name in the record's bundle
        except Exception:
            pass
    elif k == "add_record":
        add_cont(op[2])
    elif k in ("update", "update_bad"):
        add_cont(op[1])
        try:
            c = w.cont(op[1])
            if c.is_document():
                for b in c.bundles:
                    ws.add(id(b))
        except Exception:
            pass
    elif k in ("add_bundle", "add_bundle_bad"):
        add_cont(op[1])
        if k == "add_bundle":
            try:
                b = w.cont(op[2])
                if not b.is_document():
                    ws.add(id(b))  # attaching the same object is documented behaviour
            except Exception:
                pass
    # doc, fbundle, copy, doc_from, unified, flattened, roundtrip, observers: nothing
    return ws


class C12(Oracle):
    prop = "C12"
    inv = "non-interference"
    focus = DERIVING

    def swarm(self, rng):
        w = {
            "doc": 1, "bundle": 3, "fbundle": rng.choice([0, 1]), "add_ns": 5,
            "set_default": rng.choice([0, 1, 2]), "rec": 16, "add_attrs": 5,
            "set_time": 1, "add_type": 1,
            "copy": rng.choice([0, 2]), "add_record": rng.choice([0, 3]),
            "update": rng.choice([0, 2, 4]), "add_bundle": rng.choice([0, 2]),
            "doc_from": rng.choice([0, 2]), "unified": rng.choice([0, 3]),
            "flattened": rng.choice([0, 2]), "roundtrip": rng.choice([0, 1]),
            "peek": rng.choice([0, 2]),
        }
        prof = {
            "w": w,
            "max_docs": rng.choice([2, 3]),
            "p_reuse_id": rng.choice([0.2, 0.5]),
            "p_clash": rng.choice([0.1, 0.3, 0.6]),
            "fmt": rng.choice(["json", "xml"]),
            "mutate_derived": True,
        }
        return {"profile": prof, "steps": rng.randrange(10, 45)}

    def nontrivial(self, w):
        return self.counters.get("mutations_after_derivation", 0) > 0

    def before(self, w, i, op):
        self.pre = snapshot(w)
        self.ws = write_set(w, op)

    def after(self, w, i, op, out):
        post = snapshot(w)
        self.count("snapshots", len(post))
        if op[0] in self.focus and out.status == "ok":
            self.count("derivations")
            self.derived_seen = True
        if getattr(self, "derived_seen", False) and op[0] in MUTATORS and out.status == "ok":
            self.count("mutations_after_derivation")
        self.no_shared_objects(w, op)
        for oid, (kind, h, val) in self.pre.items():
            if oid in self.ws:
                continue
            now = post.get(oid)
            if now is None:
                continue
            if now[2] != val:
                raise Violation(
                    self.prop, self.inv, op[0],
                    {
                        "operation": op, "outcome": out.summary(), "changed": h, "kind": kind,
                        "what": describe_change(kind, val, now[2]),
                    },
                    {"op": op[0], "changed_kind": kind},
                )


def _no_shared_objects(self, w, op):
    """No bundle object is listed by two documents and no record object by two containers
    (sharing an object *is* sharing mutable state, whatever is mutated later)."""
    owners = {}
    rec_owner = {}
    for h, c in w.all_containers():
        if c.is_document():
            for b in c.bundles:
                prev = owners.setdefault(id(b), h)
                if prev != h:
                    raise Violation(self.prop, "no-shared-objects", "bundle-in-two-documents",
                                    {"operation": op, "documents": [prev, h],
                                     "bundle": observe._uri(b.identifier)}, {"op": op[0]})
                if b.document is not None and b.document is not c and w.handle_of(b.document) is not None:
                    raise Violation(self.prop, "no-shared-objects", "bundle-document-pointer",
                                    {"operation": op, "listed_by": h,
                                     "bundle": observe._uri(b.identifier)}, {"op": op[0]})
        for r in c.get_records():
            prev = rec_owner.setdefault(id(r), h)
            if prev != h:
                raise Violation(self.prop, "no-shared-objects", "record-in-two-containers",
                                {"operation": op, "containers": [prev, h],
                                 "record": repr(observe.rec_obs(r))}, {"op": op[0]})
            if r.bundle is not None and r.bundle is not c and w.handle_of(r.bundle) is not None:
                # a record listed here that resolves its names through *another* live container
                raise Violation(self.prop, "no-shared-objects", "record-bundle-pointer",
                                {"operation": op, "container": h,
                                 "record": repr(observe.rec_obs(r))}, {"op": op[0]})
    self.count("identity_checks")


C12.no_shared_objects = _no_shared_objects


def describe_change(kind, a, b):
    if kind == "record":
        return {"before": repr(a), "after": repr(b)}
    out = {}
    if a[0] != b[0]:
        out["records"] = observe.diff_multisets(a[0], b[0])
        if observe.multiset(a[0]) == observe.multiset(b[0]):
            out["records"] = "order changed"
    if a[1] != b[1]:
        out["namespaces"] = {"before": a[1], "after": b[1]}
    if a[2] != b[2]:
        out["bundle_ids"] = {"before": a[2], "after": b[2]}
    if a[3] != b[3]:
        out["identifier"] = {"before": a[3], "after": b[3]}
    return out
