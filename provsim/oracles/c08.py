"""C08 - unified() merges exactly the records sharing an identifier, losing nothing."""
from .. import boot  # noqa: F401
from ..core import Oracle, Violation
from .. import observe, refmodel
from .c12 import container_snapshot
from prov.model import ProvException


class C08(Oracle):
    # reach probes that must not be stuck at zero (else the workload is not reaching what
    # the design says it reaches): the check then exits 2
    required_probes = {"quick": ['conflict_expected'], "thorough": ['conflict_expected']}
    prop = "C08"

    def swarm(self, rng):
        w = {
            "doc": 1, "bundle": 3, "fbundle": rng.choice([0, 1]), "add_ns": 4,
            "set_default": rng.choice([0, 1]), "rec": 24, "add_attrs": 4,
            "unified": 6, "add_record": rng.choice([0, 2]), "update": rng.choice([0, 1]),
            "get_record_absent": rng.choice([0, 3]), "peek": rng.choice([0, 2]), "get_record": rng.choice([0, 1]),
        }
        kinds_mode = rng.randrange(3)
        from .. import pools
        if kinds_mode == 0:
            kinds = pools.KIND_NAMES
        elif kinds_mode == 1:
            kinds = ["entity", "agent", "activity", "generation", "usage", "membership"]
        else:
            kinds = rng.sample(pools.KIND_NAMES, 4)
        prof = {
            "w": w,
            "max_docs": rng.choice([1, 2]),
            "p_reuse_id": rng.choice([0.5, 0.7, 0.9]),
            "reuse_same_kind": rng.choice([0.5, 0.9]),
            "p_anon": rng.choice([0.1, 0.4]),
            "p_clash": rng.choice([0.1, 0.4]),
            "p_extra": rng.choice([0.3, 0.7]),
            "kinds": kinds,
            "locals": rng.sample(pools.LOCALS, rng.choice([2, 3])),
            "mutate_derived": rng.random() < 0.3,
        }
        return {"profile": prof, "steps": rng.randrange(8, 40)}

    def nontrivial(self, w):
        return self.counters.get("unified_with_merge", 0) > 0

    def before(self, w, i, op):
        self.expect = None
        if op[0] == "unified":
            try:
                c = w.cont(op[2])
            except Exception:
                return
            self.src = c
            self.src_snap = full_snapshot(c)
            try:
                self.expect = ("ok", refmodel.ref_unify(c))
            except refmodel.Conflict as e:
                self.expect = ("conflict", str(e))

    def after(self, w, i, op, out):
        if op[0] != "unified" or self.expect is None or out.status == "skip":
            return
        c = self.src
        self.count("unified_calls")
        # the source is never changed
        if full_snapshot(c) != self.src_snap:
            raise Violation("C08", "source-unchanged", "unified", {"operation": op})
        kind, exp = self.expect
        if kind == "conflict":
            self.probe("conflict_expected")
            if out.status != "exc" or not isinstance(out.exc, ProvException):
                raise Violation(
                    "C08", "conflict-raises", "no-exception" if out.status == "ok" else type(out.exc).__name__,
                    {"operation": op, "conflict": exp, "outcome": out.summary()},
                    {"conflict": exp},
                )
            return
        if out.status == "exc":
            raise Violation("C08", "no-spurious-failure", type(out.exc).__name__,
                            {"operation": op, "error": repr(out.exc)})
        u = out.result
        if u is c:
            raise Violation("C08", "new-object", "same-object", {"operation": op})
        got = observe.doc_obs(u)
        # Records that are merged may hold, for one attribute, numbers that a Python set
        # conflates (1, True, 1.0): which of them the union keeps is an accident of merge
        # order, not something the property fixes - those are compared by value.
        triples = conflated_numbers(c)
        if triples:
            self.probe("numbers_compared_by_value")
            got, exp = by_value(got, triples), by_value(exp, triples)

        def unordered_bundles(snap):
            return (snap[0], tuple(sorted(snap[1], key=repr)))

        if unordered_bundles(got) != unordered_bundles(exp):
            exp = unordered_bundles(exp)
            got = unordered_bundles(got)
            detail = {"operation": op, "records": observe.diff_multisets(exp[0], got[0])}
            if observe.multiset(exp[0]) == observe.multiset(got[0]) and exp[0] != got[0]:
                detail["records"] = "order differs"
                cause = "order"
            elif [b[0] for b in exp[1]] != [b[0] for b in got[1]]:
                detail["bundles"] = {"expected": [b[0] for b in exp[1]], "got": [b[0] for b in got[1]]}
                cause = "bundle-ids"
            elif exp[0] != got[0]:
                cause = "content"
            else:
                cause = "bundle-content"
                for (bi, be), (_, bg) in zip(exp[1], got[1]):
                    if be != bg:
                        detail["bundle"] = bi
                        detail["records"] = observe.diff_multisets(be, bg)
                        break
            kinds_lost = lost_kinds(exp, got)
            if kinds_lost:
                cause = "kind-disappeared"
                detail["lost"] = kinds_lost
            raise Violation("C08", "refinement", cause, detail, {"lost_kinds": kinds_lost})
        if c.is_bundle() and observe._uri(u.identifier) != observe._uri(c.identifier):
            raise Violation("C08", "refinement", "bundle-identifier", {"operation": op})
        nrec = len(c.get_records()) + sum(len(b.get_records()) for b in c.bundles) if c.is_document() else len(c.get_records())
        nout = len(exp[0]) + sum(len(b[1]) for b in exp[1])
        if nout < nrec:
            self.count("unified_with_merge")
        # idempotence
        try:
            uu = u.unified()
        except Exception as e:
            raise Violation("C08", "idempotent", "second-unified-raised", {"operation": op, "error": repr(e)})
        again = observe.doc_obs(uu)
        if triples:
            again = by_value(again, triples)
        if unordered_bundles(again) != unordered_bundles(got):
            raise Violation("C08", "idempotent", "differs", {
                "operation": op, "records": observe.diff_multisets(got[0], again[0])})
        self.count("idempotence_checks")


def conflated_numbers(c):
    """(container key, identifier URI, attribute URI) triples - key None for `c` itself, a
    bundle's URI for the bundles of a document - where records sharing the identifier hold
    value-equal numbers of different kinds."""
    num = (bool, int, float)
    out = set()
    conts = [(None, c)] + ([(observe._uri(b.identifier), b) for b in c.bundles] if c.is_document() else [])
    for ck, cc in conts:
        seen = {}
        for r in cc.get_records():
            if r.identifier is None:
                continue
            for a, v in r.attributes:
                if isinstance(v, num):
                    for w in seen.setdefault((r.identifier.uri, a.uri), []):
                        if w == v and type(w) is not type(v):
                            out.add((ck, r.identifier.uri, a.uri))
                    seen[(r.identifier.uri, a.uri)].append(v)
    return out


def by_value(snap, triples):
    def val(k):
        v = float(k[1]) if k[0] == "float" else int(k[1])
        if isinstance(v, float) and v == v and v not in (float("inf"), float("-inf")) and v.is_integer():
            v = int(v)
        return ("num", repr(v))

    def rec(ck, r):
        if not any(t[0] == ck and t[1] == r[1] for t in triples):
            return r
        attrs = {(a, val(k) if (ck, r[1], a) in triples and k[0] in ("int", "bool", "float") else k) for a, k in r[2]}
        return (r[0], r[1], tuple(sorted(attrs, key=repr)))

    return (tuple(rec(None, r) for r in snap[0]), tuple((u, tuple(rec(u, r) for r in rs)) for u, rs in snap[1]))


def full_snapshot(c):
    parts = [container_snapshot(c)]
    if c.is_document():
        for b in c.bundles:
            parts.append(container_snapshot(b))
    return tuple(parts)


def lost_kinds(exp, got):
    """(identifier, kind) pairs asserted in the expectation that the result lacks."""
    def pairs(snap):
        s = set()
        for t, i, _ in snap[0]:
            if i is not None:
                s.add(("", i, t))
        for bid, recs in snap[1]:
            for t, i, _ in recs:
                if i is not None:
                    s.add((bid, i, t))
        return s
    return sorted(pairs(exp) - pairs(got))[:4]
