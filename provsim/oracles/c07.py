"""C07 - PROV-O (RDF, default TriG) round trip preserves the unified content of
PROV-O-expressible documents.  The deciding hidden inputs are the blank-node id stream
(seeded per run: one seed = one exact blank-node naming, TriG order and reader triple
order) and the hash seed."""
import datetime

from .. import boot  # noqa: F401
from .. import observe, pools
from ..core import Violation
from .c01 import RoundTrip
from .c03 import table
from prov.identifier import Identifier, QualifiedName
from prov.model import Literal, ProvException, PROV_REC_CLS

PROV = pools.PROV_URI
PROV_CLASS_URIS = {k.uri for k in PROV_REC_CLS}
from prov.constants import PROV_BASE_CLS  # noqa: E402

ALL_PROV_CLASS_NAMES = {k.uri for k in PROV_BASE_CLS}
import re  # noqa: E402

from ..refmodel import FORMAL_URIS as ALL_FORMAL_URIS  # noqa: E402

TURTLE_LOCAL = re.compile(r"^[A-Za-z0-9_][A-Za-z0-9_.\-]*$")
BINARY_ONLY = {"Attribution", "Communication", "Delegation", "Influence", "Specialization",
               "Alternate", "Membership"}
NO_QUALIFIED_FORM = {"Specialization", "Alternate", "Membership"}
TYPE = PROV + "type"


def formal_uris(r):
    return [a.uri for a in r.FORMAL_ATTRIBUTES]


def rdf_ineligible(d):
    """Reason why the document is outside C07's quantifier, or None."""
    dt = table(d)
    declared = dict(dt)
    declared["prov"] = PROV
    declared["xsd"] = pools.XSD_URI

    def name_ok(q):
        if not isinstance(q, QualifiedName):
            return False
        p = q.namespace.prefix
        if not TURTLE_LOCAL.match(q.localpart) or q.localpart.endswith("."):
            # not writable as a Turtle prefixed name: rdflib then writes the full IRI and
            # drops the (unused) @prefix line, so the declaration never reaches the reader -
            # the situation the quantifier's first clause exists to exclude
            return False
        return bool(p) and declared.get(p) == q.namespace.uri

    kinds_by_id = {}
    conts = [d] + list(d.bundles)
    for c in conts:
        recs = c.get_records()
        if c is not d:
            if not recs:
                return "empty-bundle"
            if not name_ok(c.identifier):
                return "name-not-under-document-prefix"
        anon_by_subject = set()
        ident_by_subject = set()
        plain, qualified = set(), set()
        for r in recs:
            t = r.get_type().localpart
            if t == "Mention":
                return "mention"
            if r.identifier is not None:
                if not name_ok(r.identifier):
                    return "name-not-under-document-prefix"
                key = (id(c), r.identifier.uri)
                if kinds_by_id.setdefault(key, t) != t:
                    return "identifier-names-two-kinds"
            fu = formal_uris(r)
            attrs = r.attributes
            extras = [(a, v) for a, v in attrs if a.uri not in fu]
            formals = {a.uri: v for a, v in attrs if a.uri in fu}
            for a, v in attrs:
                if a.uri in ALL_FORMAL_URIS and a.uri not in fu:
                    # e.g. prov:entity on a start: PROV-O already uses that predicate for the
                    # start's trigger, so the attribute cannot be told apart from an argument
                    return "prov-formal-attribute-foreign-to-the-record-kind"
                if not name_ok(a):
                    return "name-not-under-document-prefix"
                if isinstance(v, QualifiedName):
                    if not name_ok(v):
                        return "name-not-under-document-prefix"
                elif isinstance(v, Literal):
                    if not v.langtag:
                        return "value-kind-literal"
                elif isinstance(v, bool) or isinstance(v, (str, int, datetime.datetime, Identifier)):
                    pass
                else:
                    return "value-kind-" + type(v).__name__
            if not r.is_relation():
                for a, v in extras:
                    if a.uri == TYPE and isinstance(v, QualifiedName) and v.uri in PROV_CLASS_URIS:
                        # "x a prov:Entity, prov:Agent" is how RDF states two records
                        return "element-typed-with-prov-record-kind"
            if r.is_relation():
                if len(fu) < 2 or fu[0] not in formals or fu[1] not in formals:
                    return "relation-without-first-two-arguments"
                for a, v in extras:
                    if a.uri == TYPE and isinstance(v, QualifiedName) and v.uri in ALL_PROV_CLASS_NAMES:
                        return "relation-typed-with-prov-class"
                optional = [u for u in fu[2:] if u in formals]
                if r.identifier is None and t in BINARY_ONLY and (extras or optional):
                    return "anonymous-binary-relation-with-attributes"
                if t in NO_QUALIFIED_FORM and (r.identifier is not None or extras):
                    return "no-qualified-form-in-prov-o"
                subj = formals[fu[0]].uri
                if r.identifier is None:
                    anon_by_subject.add((subj, t))
                else:
                    ident_by_subject.add((subj, t))
                obj = formals[fu[1]]
                okey = (subj, t, obj.uri if isinstance(obj, Identifier) else repr(obj))
                if r.identifier is None and not extras and not optional:
                    plain.add(okey)
                else:
                    qualified.add(okey)
        if anon_by_subject & ident_by_subject:
            return "subject-with-identified-and-anonymous-relation"
    return None


def conflated_pairs(d):
    """F20 facts: subjects carrying a plain binary and a qualified association/delegation
    (to different objects) in one container."""
    out = []
    for c in [d] + list(d.bundles):
        plain, qual = set(), set()
        for r in c.get_records():
            t = r.get_type().localpart
            if t not in ("Association", "Delegation"):
                continue
            fu = formal_uris(r)
            formals = {a.uri: v for a, v in r.attributes if a.uri in fu}
            if fu[0] not in formals:
                continue
            extras = [a for a, v in r.attributes if a.uri not in fu]
            optional = [u for u in fu[2:] if u in formals]
            key = (formals[fu[0]].uri, t)
            if r.identifier is None and not extras and not optional:
                plain.add(key)
            else:
                qual.add(key)
        out.extend(sorted(plain & qual))
    return out


class C07(RoundTrip):
    prop = "C07"
    fmt = "rdf"

    def swarm(self, rng):
        cfg = RoundTrip.swarm(self, rng)
        p = cfg["profile"]
        p["w"].update({"set_default": rng.choice([0, 0, 1]), "fbundle": 0, "add_bundle": 0, "update": 0, "add_record": 0,
                       "unified": 0, "add_type": rng.choice([0, 1]), "bundle": rng.choice([0, 2, 3]),
                       "add_ns": 6, "roundtrip": 4})
        p.update({
            # a default namespace may be *declared* on the document; no name ever uses it
            "defaults": True, "bundle_defaults": False, "bundle_ns": False,
            "name_kinds": {"nsobj": 6, "pl": 2},
            "formal_as": {"nsobj": 4, "pl": 2, "rec": 3},
            "value_kinds": {"s": 6, "i": 3, "b": 2, "dt": 3, "uri": 2, "qnv": 3, "lang": 3,
                            "f": 0, "litf": 0, "litn": 0},
            "p_extra": rng.choice([0.2, 0.5]),
            "mask": rng.choice(["first2", "first2", "all"]),
            "mention": False,
            "rdf_safe": True,
            "odd_locals": False,
            "p_clash": rng.choice([0.0, 0.2]),
            "p_reuse_id": rng.choice([0.0, 0.1, 0.3]),
            "p_anon": rng.choice([0.2, 0.5, 0.8]),
            "attr_prov": rng.choice([0.1, 0.3]),
            "kinds": [k for k in pools.KIND_NAMES if k != "mention"],
        })
        return cfg

    def next_op(self, gen, world, i):
        if i == 1 and gen.docs:
            # every name must live under a document-level prefix: declare two up front
            return gen.g_add_ns()
        op = RoundTrip.next_op(self, gen, world, i)
        if getattr(self, "_fill", None):
            # a bundle was just created: give it a record at once (RDF has no empty graph)
            bh, self._fill = self._fill, None
            if op[0] != "roundtrip":
                return gen.gen_rec(bh, kind="entity")
        if op[0] == "bundle":
            self._fill = op[1]
        return op

    def eligible(self, d):
        why = rdf_ineligible(d)
        if why:
            return False, why
        try:
            self._unified = d.unified()
        except ProvException:
            return False, "unification-conflict"
        # Records that unification merges may hold, for one attribute, numbers that a Python
        # set conflates (1, True, 1.0): RDF keeps them apart as two literals, and which of
        # them the merged record ends up holding is an accident of order on both sides.
        # Such documents are compared with numbers by value instead of by kind.
        self._by_value = numeric_conflation(d)
        if self._by_value:
            self.probe("numbers_compared_by_value")
        return True, None

    def facts(self, d, d2):
        return {"conflated_association_or_delegation": [list(x) for x in conflated_pairs(d)]}

    def expected(self, d):
        s = observe.doc_sets(self._unified)
        return numbers_by_value(s, self._by_value) if self._by_value else s

    def got(self, d2):
        s = observe.doc_sets(d2)
        return numbers_by_value(s, self._by_value) if self._by_value else s


def numeric_conflation(d):
    """The (container, identifier, attribute) triples - container None for the document, else
    the bundle's URI - for which two records sharing the identifier hold numbers that are
    equal as Python numbers but of different kinds."""
    num = (bool, int, float)
    out = set()
    for c in [d] + list(d.bundles):
        ck = None if c is d else observe._uri(c.identifier)
        seen = {}
        for r in c.get_records():
            if r.identifier is None:
                continue
            for a, v in r.attributes:
                if isinstance(v, num):
                    for w in seen.setdefault((r.identifier.uri, a.uri), []):
                        if w == v and type(w) is not type(v):
                            out.add((ck, r.identifier.uri, a.uri))
                    seen[(r.identifier.uri, a.uri)].append(v)
    return out


def numbers_by_value(snap, triples):
    """The snapshot with the numbers of the given (container, identifier, attribute) triples
    keyed by value instead of by kind, and the attributes of those records as a set."""
    def val(k):
        if isinstance(k, tuple) and k and k[0] in ("int", "bool", "float"):
            v = float(k[1]) if k[0] == "float" else int(k[1])
            if isinstance(v, float) and v == v and v not in (float("inf"), float("-inf")) and v.is_integer():
                v = int(v)
            return ("num", repr(v))
        return k

    def rec(ck, r):
        if not any(t[0] == ck and t[1] == r[1] for t in triples):
            return r
        return (r[0], r[1], frozenset((a, val(k) if (ck, r[1], a) in triples else k) for a, k in r[2]))

    recs, bundles = snap
    return (frozenset(rec(None, r) for r in recs),
            tuple((u, frozenset(rec(u, r) for r in rs)) for u, rs in bundles))
