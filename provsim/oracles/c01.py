"""C01 - PROV-JSON round trip preserves every document exactly."""
from .. import boot  # noqa: F401
from ..core import Oracle, Violation
from .. import observe, pools


def bare_name_with_colon(d):
    from prov.identifier import QualifiedName
    from prov.model import Literal

    def bad(q):
        return isinstance(q, QualifiedName) and not q.namespace.prefix and ":" in q.localpart

    for c in [d] + list(d.bundles):
        if c is not d and bad(c.identifier):
            return True
        for r in c.get_records():
            if bad(r.identifier):
                return True
            for a, v in r.attributes:
                if bad(a) or bad(v) or (isinstance(v, Literal) and bad(v.datatype)):
                    return True
    return False


class RoundTrip(Oracle):
    # reach probes that must not be stuck at zero (else the workload is not reaching what
    # the design says it reaches): the check then exits 2
    required_probes = {"quick": ['with_bundles', 'perturbed_between_write_and_read'], "thorough": ['with_bundles', 'perturbed_between_write_and_read']}
    """Shared by C01 / C02 / C07: judge export->import pairs on states reached by histories."""

    prop = None
    fmt = None

    def base_profile(self, rng):
        w = {
            "doc": 1, "bundle": 3, "fbundle": rng.choice([0, 0, 1]), "add_ns": 5,
            "set_default": rng.choice([0, 1, 2]), "rec": 20, "add_attrs": 3,
            "set_time": 1, "add_type": rng.choice([0, 1]), "roundtrip": 5,
            "add_bundle": rng.choice([0, 1]), "update": rng.choice([0, 0, 1]),
            "add_record": rng.choice([0, 0, 1]), "unified": rng.choice([0, 0, 1]),
            "clock_jump": rng.choice([0, 1]), "restart_lite": rng.choice([0, 1]),
            # exporters, comparisons and read-only accessors must be inert: interleave them
            "export": rng.choice([0, 0, 1]), "peek": rng.choice([0, 0, 1]), "eq": rng.choice([0, 0, 1]),
        }
        return {
            "w": w,
            "max_docs": rng.choice([1, 2]),
            "p_reuse_id": rng.choice([0.2, 0.5]),
            "p_anon": rng.choice([0.2, 0.5, 0.8]),
            "p_clash": rng.choice([0.1, 0.3, 0.6]),
            "p_extra": rng.choice([0.3, 0.7]),
            "multi_value": rng.choice([0.2, 0.6]),
            "fmt": self.fmt,
            "p_between": 0.3,
            "mask": rng.choice(["any", "any", "first2", "all"]),
            "bundle_defaults": rng.random() < 0.7,
            "steer_f11b": rng.random() < 0.5,
            "p_foreign_type": rng.choice([0.0, 0.5]),
            "p_roundtrip_derived": rng.choice([0.0, 0.3]),
            "p_subfactory": rng.choice([0.0, 0.3]),
            "odd_locals": rng.random() < 0.3,
        }

    def swarm(self, rng):
        return {"profile": self.base_profile(rng), "steps": rng.randrange(6, 40)}

    def next_op(self, gen, world, i):
        steps = self.cfg.get("total_steps", self.cfg["steps"])
        if i == steps - 1 and gen.docs:
            return gen.g_roundtrip()  # always judge the final state
        return gen.next_op(world)

    def nontrivial(self, w):
        return self.counters.get("roundtrips_nonempty", 0) > 0

    def eligible(self, d):
        """(ok, reason) - is this document inside the property's quantifier?"""
        return True, None

    def expected(self, d):
        return observe.doc_multiset(d)

    def got(self, d2):
        return observe.doc_multiset(d2)

    def after(self, w, i, op, out):
        if op[0] != "roundtrip" or out.status == "skip" or op[3] != self.fmt:
            return
        d = w.cont(op[2])
        self.count("roundtrips")
        ok, why = self.eligible(d)
        if ok and bare_name_with_colon(d):
            # a name in a default namespace whose local part contains ':' prints as
            # "x:y", which every reader must take for prefix:local (C03 sets the same names
            # aside): no textual format can express it
            ok, why = False, "bare-local-name-with-colon"
        if not ok:
            self.count("ineligible")
            self.probe("ineligible_" + why)
            return
        self.count("roundtrips_eligible")
        nrec = len(d.get_records()) + sum(len(b.get_records()) for b in d.bundles)
        if nrec:
            self.count("roundtrips_nonempty")
        if d.has_bundles():
            self.probe("with_bundles")
        if op[7] if len(op) > 7 else None:
            self.probe("perturbed_between_write_and_read")
        if out.status == "exc":
            raise Violation(
                self.prop, "round-trip", "%s-raised-%s" % (out.info.get("phase"), type(out.exc).__name__),
                {"operation": op, "error": repr(out.exc)[:500], "text": (out.info.get("text") or "")[:1500]},
                self.facts(d, None),
            )
        d2 = out.result
        exp, got = self.expected(d), self.got(d2)
        if exp != got:
            detail = {"operation": op, "text": out.info.get("text", "")[:2500]}
            cause = "content"
            if exp[0] != got[0]:
                detail["document_records"] = observe.diff_multisets(exp[0], got[0])
            eb, gb = dict(exp[1]), dict(got[1])
            if sorted(eb) != sorted(gb):
                cause = "bundle-identifiers"
                detail["bundles"] = {"expected": sorted(eb), "got": sorted(gb)}
            else:
                for u in eb:
                    if eb[u] != gb[u]:
                        detail["bundle"] = u
                        detail["bundle_records"] = observe.diff_multisets(eb[u], gb[u])
                        break
            raise Violation(self.prop, "round-trip", cause, detail, self.facts(d, d2))

    def facts(self, d, d2):
        """Facts for known-finding attribution (F11b): two bundles of the source document
        whose identifiers are *printed* identically although they are different URIs (the
        PROV-JSON writer keys the document-level "bundle" map by the printed identifier)."""
        dup = []
        try:
            printed = {}
            for b in d.bundles:
                printed.setdefault(str(b.identifier), set()).add(b.identifier.uri)
            dup = sorted(k for k, us in printed.items() if len(us) > 1)
            uris = sorted(u for k, us in printed.items() if len(us) > 1 for u in us)
        except Exception:
            uris = []
        return {"bundle_keys_printed_identically": dup, "colliding_bundle_uris": uris}


class C01(RoundTrip):
    prop = "C01"
    fmt = "json"
