"""Worker: runs a slice of seeds in one interpreter (one PYTHONHASHSEED).

usage: python -m provsim.worker PROP OUTFILE SEED0 STRIDE OFFSET COUNT WALL_S [MINIMISE_S]
Seeds run are SEED0 + OFFSET + k*STRIDE for k in range(COUNT), until WALL_S is used.
"""
import faulthandler
import hashlib
import json
import os
import sys
import time
import traceback

from . import boot  # noqa: F401
from . import core
from .oracles import get_oracle


def sig_name(sig):
    return hashlib.sha1(json.dumps(sig).encode()).hexdigest()[:12]


def main(argv):
    prop, outfile = argv[0], argv[1]
    seed0, stride, offset, count = int(argv[2]), int(argv[3]), int(argv[4]), int(argv[5])
    wall = float(argv[6])
    min_s = float(argv[7]) if len(argv) > 7 else 30.0
    faulthandler.enable()
    faulthandler.dump_traceback_later(wall * 3 + 120, exit=True)
    cls = get_oracle(prop)
    hashseed = os.environ.get("PYTHONHASHSEED", "random")
    t0 = time.time()
    agg = {
        "prop": prop, "hashseed": hashseed, "runs": 0, "steps": 0, "nontrivial": 0,
        "digests": [], "counters": {}, "probes": {}, "opcounts": {}, "outcomes": {},
        "violations": [], "samples": [], "clock_span": 0.0, "harness_errors": [],
        "seeds": [], "per_seed": {},
    }
    seen_sigs = {}
    digests = set()
    want_per_seed = getattr(cls, "cross_hash", False)
    for k in range(count):
        if time.time() - t0 > wall:
            break
        seed = seed0 + offset + k * stride
        try:
            res = core.simulate(cls, seed)
        except Exception:
            agg["harness_errors"].append({"seed": seed, "trace": traceback.format_exc()[-3000:]})
            if len(agg["harness_errors"]) > 3:
                break
            continue
        agg["runs"] += 1
        agg["steps"] += len(res.ops)
        agg["clock_span"] += res.clock_span
        if k < 2 or k == count - 1:
            agg["seeds"].append(seed)
        for d, s in ((agg["counters"], res.counters), (agg["probes"], res.probes),
                     (agg["opcounts"], res.opcounts), (agg["outcomes"], res.outcomes)):
            for kk, vv in s.items():
                d[kk] = d.get(kk, 0) + vv
        if res.nontrivial:
            agg["nontrivial"] += 1
            digests.add(res.state_digest[:16])
        if want_per_seed:
            agg["per_seed"][str(seed)] = res.outcome_key
        if len(agg["samples"]) < 2 and res.nontrivial and len(res.ops) <= 14:
            agg["samples"].append({"seed": seed, "ops": res.ops})
        if res.violation is not None:
            v = res.violation
            from . import known
            fid = known.attribute(prop, {"signature": v.signature, "facts": v.facts, "detail": v.detail})
            key = json.dumps([v.signature, fid])  # an instance of a known finding never hides a new one
            if key in seen_sigs:
                seen_sigs[key]["count"] += 1
                continue
            ops = res.ops
            try:
                ops_min, tests, ok = core.minimise(cls, res.cfg, res.ops, seed, v.signature, budget_s=min_s)
                rr = core.replay(cls, res.cfg, ops_min, seed)
                if rr.violation is not None and rr.violation.signature == v.signature:
                    ops, v = ops_min, rr.violation
            except Exception:
                agg["harness_errors"].append({"seed": seed, "trace": traceback.format_exc()[-3000:]})
            entry = {
                "property": prop, "seed": seed, "hashseed": hashseed, "cfg": res.cfg,
                "ops": ops, "signature": v.signature, "detail": v.detail, "facts": v.facts,
                "step": v.step, "unminimised_len": len(res.ops), "count": 1,
                # the seeds this worker interpreter executed before, for a whole-session replay
                # should the violation depend on state earlier runs left behind in the process
                "session": {"seed0": seed0, "stride": stride, "offset": offset, "k": k,
                            "tier": os.environ.get("PROVSIM_TIER", "quick")},
                "python": sys.version.split()[0],
            }
            seen_sigs[key] = entry
            agg["violations"].append(entry)
            if len(agg["violations"]) >= 6:
                break
    agg["digests"] = sorted(digests)
    agg["wall"] = time.time() - t0
    with open(outfile, "w") as f:
        json.dump(agg, f, default=repr)
    faulthandler.cancel_dump_traceback_later()
    return 0


if __name__ == "__main__":
    sys.exit(main(sys.argv[1:]))
