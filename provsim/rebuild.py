"""Capture a document's content through public accessors and rebuild it, optionally
permuted, re-prefixed, with a duplicated record, or with exactly one edit.

Used by C04 (equality partners).  All choices are functions of the variant's integers
and of *sorted* content, never of set iteration order, so a rebuilt partner is the same
under every PYTHONHASHSEED.
"""
import datetime
import random

from . import boot  # noqa: F401
from . import observe
from prov.identifier import Identifier, Namespace, QualifiedName
from prov.model import Literal, ProvDocument, ProvElement, PROV_REC_CLS
from prov.constants import PROV


def cap_name(q):
    if q is None:
        return None
    if isinstance(q, QualifiedName):
        return ("qn", q.namespace.prefix, q.namespace.uri, q.localpart)
    return ("id", q.uri)


def cap_value(v):
    if isinstance(v, QualifiedName):
        return ("QN", cap_name(v))
    if isinstance(v, Literal):
        return ("LIT", v.value, cap_name(v.datatype) if v.datatype is not None else None, v.langtag)
    return ("PY", v)


def capture_records(c):
    out = []
    for r in c.get_records():
        attrs = [(cap_name(a), cap_value(v), (a.uri, observe.vkey(v))) for a, v in r.attributes]
        attrs.sort(key=lambda t: repr(t[2]))
        out.append({"type": r.get_type(), "id": cap_name(r.identifier), "attrs": [(a, v) for a, v, _ in attrs]})
    return out


def capture(d):
    cap = {"records": capture_records(d), "bundles": []}
    if d.is_document():
        for b in d.bundles:
            cap["bundles"].append({"id": cap_name(b.identifier), "records": capture_records(b)})
    return cap


class Prefixes(object):
    def __init__(self, style):
        self.style = style
        self.map = {}

    def ns(self, prefix, uri):
        if self.style == "orig":
            return Namespace(prefix, uri)
        if uri == PROV.uri:
            return PROV
        if uri not in self.map:
            self.map[uri] = "q%d" % (len(self.map) + 1)
        return Namespace(self.map[uri], uri)


def mk_name(n, px):
    if n is None:
        return None
    if n[0] == "qn":
        return QualifiedName(px.ns(n[1], n[2]), n[3])
    return Identifier(n[1])


def mk_value(v, px):
    if v[0] == "QN":
        return mk_name(v[1], px)
    if v[0] == "LIT":
        return Literal(v[1], mk_name(v[2], px) if v[2] is not None else None, v[3])
    return v[1]


def build_into(c, recs, px):
    for r in recs:
        attrs = [(mk_name(a, px), mk_value(v, px)) for a, v in r["attrs"]]
        c.new_record(r["type"], mk_name(r["id"], px), attrs)


def build(cap, style="orig", via="new_record"):
    px = Prefixes(style)
    d = ProvDocument()
    build_into(d, cap["records"], px)
    for b in cap["bundles"]:
        nb = d.bundle(mk_name(b["id"], px))
        build_into(nb, b["records"], px)
    if via == "records_ctor":
        d2 = ProvDocument(records=d.get_records())
        for b in d.bundles:
            nb = d2.bundle(b.identifier)
            nb.update(b)
        return d2
    return d


# ---------------------------------------------------------------------- variants
def permute(cap, seed):
    rng = random.Random(seed)
    rng.shuffle(cap["records"])
    for b in cap["bundles"]:
        rng.shuffle(b["records"])
    rng.shuffle(cap["bundles"])


def duplicate(cap, k):
    conts = [cap["records"]] + [b["records"] for b in cap["bundles"]]
    conts = [c for c in conts if c]
    if not conts:
        return False
    c = conts[k % len(conts)]
    r = c[(k // 7) % len(c)]
    c.append({"type": r["type"], "id": r["id"], "attrs": list(r["attrs"])})
    return True


SWAP = {"Generation": "Invalidation", "Invalidation": "Generation", "Entity": "Agent", "Agent": "Entity",
        "Start": "End", "End": "Start"}


def alter_py(v):
    if isinstance(v, bool):
        return not v
    if isinstance(v, int):
        return v + 1
    if isinstance(v, float):
        if v in (float("inf"), float("-inf")):
            return 0.0
        return v + 1.5 if abs(v) < 1e15 else v / 2
    if isinstance(v, str):
        return v + "~"
    if isinstance(v, datetime.datetime):
        try:
            return v + datetime.timedelta(seconds=1)
        except OverflowError:
            return v - datetime.timedelta(seconds=1)
    if isinstance(v, Identifier):
        return Identifier(v.uri + "~")
    return "~changed~"


def alter_value(v):
    if v[0] == "QN":
        n = v[1]
        return ("QN", ("qn", n[1], n[2], n[3] + "_alt") if n[0] == "qn" else ("id", n[1] + "_alt"))
    if v[0] == "LIT":
        return ("LIT", v[1] + "~", v[2], v[3])
    return ("PY", alter_py(v[1]))


def swap_kind(v):
    """The same URI as the other kind of value: qualified name <-> xsd:anyURI."""
    if v[0] == "QN" and v[1][0] == "qn":
        return ("PY", Identifier(v[1][2] + v[1][3]))
    if v[0] == "PY" and type(v[1]) is Identifier:
        u = v[1].uri
        cut = max(u.rfind("/"), u.rfind("#"), u.rfind(":")) + 1
        if 0 < cut < len(u):
            return ("QN", ("qn", "sw", u[:cut], u[cut:]))
    return None


def apply_edit(cap, edit):
    """Apply exactly one edit.  Returns a short description, or None if not applicable."""
    kind, k = edit[0], edit[1]
    conts = [cap["records"]] + [b["records"] for b in cap["bundles"]]
    nonempty = [c for c in conts if c]
    if kind in ("alter_value", "add_attr", "remove_attr", "alter_id", "toggle_id", "remove_record",
                "swap_type", "alter_formal", "swap_value_kind") and not nonempty:
        return None
    if kind == "add_record":
        c = conts[k % len(conts)]
        c.append({"type": PROV["Entity"], "id": ("qn", "ed", "http://edit.example/", "extra%d" % k), "attrs": []})
        return "add_record"
    if kind == "add_bundle":
        cap["bundles"].append({"id": ("qn", "ed", "http://edit.example/", "bundle%d" % k), "records": []})
        return "add_bundle"
    if kind == "remove_bundle":
        if not cap["bundles"]:
            return None
        del cap["bundles"][k % len(cap["bundles"])]
        return "remove_bundle"
    if kind in ("add_member", "remove_member"):
        if not cap["bundles"]:
            return None
        b = cap["bundles"][k % len(cap["bundles"])]
        if kind == "add_member":
            b["records"].append({"type": PROV["Agent"], "id": ("qn", "ed", "http://edit.example/", "m%d" % k), "attrs": []})
            return "add_member"
        if not b["records"]:
            return None
        del b["records"][(k // 5) % len(b["records"])]
        return "remove_member"
    c = nonempty[k % len(nonempty)]
    r = c[(k // 7) % len(c)]
    if kind == "remove_record":
        c.remove(r)
        return "remove_record"
    if kind == "alter_id":
        if r["id"] is None or r["id"][0] != "qn":
            return None
        n = r["id"]
        r["id"] = ("qn", n[1], n[2], n[3] + "_e")
        return "alter_id"
    if kind == "toggle_id":
        if issubclass(PROV_REC_CLS[r["type"]], ProvElement):
            return None
        if r["id"] is None:
            r["id"] = ("qn", "ed", "http://edit.example/", "rel%d" % k)
            return "toggle_id:add"
        r["id"] = None
        return "toggle_id:remove"
    if kind == "swap_type":
        t = r["type"].localpart
        if t not in SWAP:
            return None
        r["type"] = PROV[SWAP[t]]
        if t in ("Start", "End"):
            r["attrs"] = [
                ((("qn", "prov", PROV.uri, {"starter": "ender", "ender": "starter"}.get(a[3], a[3])) if a[0] == "qn" and a[2] == PROV.uri else a), v)
                for a, v in r["attrs"]
            ]
        return "swap_type"
    if kind == "swap_value_kind":
        for c2 in nonempty[k % len(nonempty):] + nonempty[:k % len(nonempty)]:
            for r2 in c2:
                formal2 = {a.uri for a in PROV_REC_CLS[r2["type"]].FORMAL_ATTRIBUTES}
                for i2, (a2, v2) in enumerate(r2["attrs"]):
                    if a2[0] == "qn" and a2[2] + a2[3] in formal2:
                        continue
                    nv = swap_kind(v2)
                    if nv is not None:
                        r2["attrs"][i2] = (a2, nv)
                        return "swap_value_kind"
        return None
    if kind == "add_attr":
        r["attrs"].append((("qn", "ed", "http://edit.example/", "added"), ("PY", "new%d" % k)))
        return "add_attr"
    if not r["attrs"]:
        return None
    formal = {a.uri for a in PROV_REC_CLS[r["type"]].FORMAL_ATTRIBUTES}
    if kind == "alter_formal":
        idx = [i for i, (a, v) in enumerate(r["attrs"]) if a[0] == "qn" and a[2] + a[3] in formal]
    elif kind in ("alter_value", "remove_attr"):
        idx = list(range(len(r["attrs"])))
    else:
        return None
    if not idx:
        return None
    i = idx[(k // 11) % len(idx)]
    a, v = r["attrs"][i]
    if kind == "remove_attr":
        del r["attrs"][i]
        return "remove_attr"
    r["attrs"][i] = (a, alter_value(v))
    return kind


# ("swap_value_kind" - the same URI as qualified name <-> xsd:anyURI - is implemented above but
# not drawn: whether those are one value or two is exactly what the library's == leaves open)
EDIT_KINDS = ["alter_value", "alter_formal", "add_attr", "remove_attr", "alter_id", "toggle_id",
              "remove_record", "add_record", "add_bundle", "remove_bundle", "add_member",
              "remove_member", "swap_type"]


def rebuild(d, variant):
    """variant: {"perm": int|None, "prefix": "orig"|"alt", "dup": int|None,
                 "via": "new_record"|"records_ctor", "edit": [kind, k]|None}"""
    cap = capture(d)
    info = {}
    if variant.get("edit") is not None:
        info["edit"] = apply_edit(cap, variant["edit"])
    if variant.get("dup") is not None:
        info["dup"] = duplicate(cap, variant["dup"])
    if variant.get("perm") is not None:
        permute(cap, variant["perm"])
    return build(cap, variant.get("prefix", "orig"), variant.get("via", "new_record")), info
