"""Determinism self-test.

For every op-history property: N seeds are executed in two fresh interpreters with the
same PYTHONHASHSEED (event-log digests must be identical: one seed = one execution), in
a third with another hash seed (schedule digests must be identical: the generator is
independent of hash order), and in one long-lived interpreter after many unrelated runs
(warm vs fresh: process-global caches are inert).

usage: python -m provsim.selftest [N] [PROP ...]
"""
import json
import os
import subprocess
import sys

VERIF = os.path.dirname(os.path.dirname(os.path.abspath(__file__)))
PROPS = ["C01", "C02", "C03", "C04", "C05", "C07", "C08", "C09", "C12", "C13", "C18"]


def child(prop, seeds, warm):
    from . import boot  # noqa: F401
    from . import core
    from .oracles import get_oracle

    cls = get_oracle(prop)
    if warm:
        for s in range(900000, 900000 + warm):
            core.simulate(cls, s)
    out = {}
    for s in seeds:
        r = core.simulate(cls, s)
        out[str(s)] = [r.digest, r.sched_digest, None if r.violation is None else r.violation.signature]
    print(json.dumps(out))


def spawn(prop, seeds, hashseed, warm=0):
    env = dict(os.environ, PYTHONHASHSEED=str(hashseed), PYTHONPATH=VERIF)
    p = subprocess.run([sys.executable, "-m", "provsim.selftest", "--child", prop, str(warm)] + [str(s) for s in seeds],
                       cwd=VERIF, env=env, stdout=subprocess.PIPE, stderr=subprocess.PIPE, timeout=1800)
    if p.returncode != 0:
        raise RuntimeError(p.stderr.decode()[-2000:])
    return json.loads(p.stdout.decode().strip().splitlines()[-1])


def main(argv):
    if argv and argv[0] == "--child":
        child(argv[1], [int(x) for x in argv[3:]], int(argv[2]))
        return 0
    n = int(argv[0]) if argv else 200
    props = argv[1:] or PROPS
    bad = 0
    from concurrent.futures import ThreadPoolExecutor
    for prop in props:
        seeds = [77000 + i * 13 for i in range(n)]
        with ThreadPoolExecutor(4) as ex:
            fa = ex.submit(spawn, prop, seeds, 0)
            fb = ex.submit(spawn, prop, seeds, 0)
            fc = ex.submit(spawn, prop, seeds, 5)
            fd = ex.submit(spawn, prop, list(reversed(seeds)), 0, 150)
            a, b, c, d = fa.result(), fb.result(), fc.result(), fd.result()
        same_run = sum(1 for s in a if a[s] == b[s])
        same_sched = sum(1 for s in a if a[s][1] == c[s][1])
        same_outcome_other_hash = sum(1 for s in a if a[s][0] == c[s][0])
        warm_same = sum(1 for s in a if a[s] == d[s])
        ok = same_run == n and same_sched == n and warm_same == n
        bad += 0 if ok else 1
        print("%s: seeds=%d same-hashseed-twice=%d schedule-under-other-hashseed=%d warm-vs-fresh=%d "
              "(event log also equal under other hashseed: %d) %s" % (
                  prop, n, same_run, same_sched, warm_same, same_outcome_other_hash, "OK" if ok else "MISMATCH"))
    return 1 if bad else 0


if __name__ == "__main__":
    sys.exit(main(sys.argv[1:]))
