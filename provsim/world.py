"""The simulated world: containers, records, artifacts; executes operations.

An operation is a JSON list.  Arguments are symbolic (handles, name specs, value
specs), never Python object identities, so any sub-list of a history is still
executable: operations whose referent does not exist are skipped and logged.

Name specs
    ["pl", prefix, local]        the string "prefix:local"
    ["qn", prefix, uri, local]   QualifiedName(Namespace(prefix, uri), local)  (fresh ns object)
    ["nsobj", ch, prefix, local] ns[local] with ns the object add_namespace returned in ch
    ["full", uri, local]         the string uri+local
    ["bare", local]              the string local
    ["ident", uri]               Identifier(uri)
    ["rec", ref]                 a record object
Record refs
    ["h", handle]                a record the harness created (explicit handle)
    ["n", ch, i]                 i-th (mod n) record of container ch as the library lists it
Value specs
    ["s", str] ["i", int] ["f", repr] ["b", bool] ["dt", iso] (datetime object)
    ["dts", iso] (the ISO string)  ["uri", str] (Identifier)
    ["lit", text, datatype-name-spec|None, lang|None]
    any name spec (strings stay strings, qn/nsobj are QualifiedName values, rec is a record)
"""
import datetime
import hashlib
import io
import json

from . import boot  # noqa: F401
from . import pools
from . import observe
import prov
from prov.identifier import Identifier, Namespace, QualifiedName
from prov.model import (
    Literal,
    ProvBundle,
    ProvDocument,
    ProvException,
    ProvRecord,
    PROV_REC_CLS,
    ProvElement,
    ProvRelation,
)
from prov.constants import PROV, XSD

KIND_TYPE = {k: PROV[v[0]] for k, v in pools.KINDS.items()}
TYPE_KIND = {v.uri: k for k, v in KIND_TYPE.items()}


class Skip(Exception):
    """The operation's referent does not exist (any more); nothing was called."""


class Out(object):
    """Outcome of one executed operation."""

    __slots__ = ("status", "exc", "result", "info")

    def __init__(self, status, exc=None, result=None, info=None):
        self.status = status  # "ok" | "exc" | "skip"
        self.exc = exc
        self.result = result
        self.info = info or {}

    @property
    def refused(self):
        return self.status == "exc" and isinstance(self.exc, ProvException)

    def summary(self):
        if self.status == "exc":
            return ["exc", type(self.exc).__name__]
        if self.status == "skip":
            return ["skip", str(self.info.get("why", ""))]
        return ["ok", self.info.get("sum")]


def text_sum(t):
    """Order-insensitive summary of an export text for the event log.  (The order of a
    multi-valued attribute's values follows set iteration order, which for xsd:anyURI
    values depends on the *address* of the Identifier class object - Identifier.__hash__
    hashes the class - and so differs between processes even under a fixed
    PYTHONHASHSEED; the event log must not.)"""
    return [len(t), hashlib.sha1("".join(sorted(t)).encode("utf-8", "surrogatepass")).hexdigest()[:12]]


def parse_dt(iso):
    return datetime.datetime.fromisoformat(iso)


class World(object):
    def __init__(self, cfg=None):
        self.cfg = cfg or {}
        self.containers = {}  # handle -> ProvBundle | ProvDocument (insertion ordered)
        self.cmeta = {}  # handle -> {"kind": doc|bundle|free, "parent": handle|None}
        self.records = {}  # handle -> ProvRecord
        self.rmeta = {}  # handle -> {"cont": ch, "kind": kind}
        self.nsobjs = {}  # (ch, prefix) -> Namespace returned by add_namespace
        self.artifacts = {}  # handle -> dict(fmt=..., text=..., bytes=...)
        self._known = {}  # id(obj) -> handle   (objects kept alive by self.containers)
        self.log = []
        self.step = 0

    # ----------------------------------------------------------------- tables
    def register_container(self, h, obj, kind, parent=None):
        if h in self.containers:
            raise Skip("handle %s already used" % h)
        self.containers[h] = obj
        self.cmeta[h] = {"kind": kind, "parent": parent}
        self._known.setdefault(id(obj), h)

    def handle_of(self, obj):
        return self._known.get(id(obj))

    def rescan(self):
        """Give handles to bundles that appeared inside known documents."""
        for h in list(self.containers):
            c = self.containers[h]
            if c.is_document():
                for b in c.bundles:
                    if id(b) not in self._known:
                        uri = b.identifier.uri if isinstance(b.identifier, Identifier) else repr(b.identifier)
                        nh = "%s/%s" % (h, uri)
                        k = 1
                        while nh in self.containers:
                            k += 1
                            nh = "%s/%s~%d" % (h, uri, k)
                        self.containers[nh] = b
                        self.cmeta[nh] = {"kind": "bundle", "parent": h}
                        self._known[id(b)] = nh
                    else:
                        bh = self._known[id(b)]
                        if self.cmeta[bh]["kind"] == "free":
                            self.cmeta[bh] = {"kind": "bundle", "parent": h}

    def cont(self, h):
        try:
            return self.containers[h]
        except KeyError:
            pass
        if "#" in h:
            # "<doc handle>#<k>": the k-th (mod n) bundle of that document as listed now
            dh, k = h.rsplit("#", 1)
            d = self.containers.get(dh)
            if d is not None and d.is_document():
                bs = list(d.bundles)
                if bs:
                    return bs[int(k) % len(bs)]
        raise Skip("no container %s" % (h,))

    def doc(self, h):
        c = self.cont(h)
        if not c.is_document():
            raise Skip("%s is not a document" % h)
        return c

    def documents(self):
        """Distinct live documents (handle, obj), aliases removed."""
        seen = set()
        out = []
        for h, c in self.containers.items():
            if c.is_document() and id(c) not in seen:
                seen.add(id(c))
                out.append((h, c))
        return out

    def all_containers(self):
        seen = set()
        out = []
        for h, c in self.containers.items():
            if id(c) not in seen:
                seen.add(id(c))
                out.append((h, c))
        return out

    def rec(self, ref):
        if ref[0] == "h":
            try:
                return self.records[ref[1]]
            except KeyError:
                raise Skip("no record %s" % ref[1])
        if ref[0] == "n":
            recs = self.cont(ref[1]).get_records()
            if not recs:
                raise Skip("container %s empty" % ref[1])
            return recs[ref[2] % len(recs)]
        raise ValueError("bad record ref %r" % (ref,))

    # ------------------------------------------------------------ materialise
    def name(self, spec):
        t = spec[0]
        if t == "pl":
            return "%s:%s" % (spec[1], spec[2])
        if t == "qn":
            return QualifiedName(Namespace(spec[1], spec[2]), spec[3])
        if t == "nsobj":
            ns = self.nsobjs.get((spec[1], spec[2]))
            if ns is None:
                raise Skip("no namespace object %s in %s" % (spec[2], spec[1]))
            return ns[spec[3]]
        if t == "full":
            return spec[1] + spec[2]
        if t == "bare":
            return spec[1]
        if t == "ident":
            return Identifier(spec[1])
        if t == "rec":
            return self.rec(spec[1])
        raise ValueError("bad name spec %r" % (spec,))

    def value(self, spec):
        t = spec[0]
        if t == "s":
            return spec[1]
        if t == "i":
            return int(spec[1])
        if t == "f":
            return float(spec[1])
        if t == "b":
            return bool(spec[1])
        if t == "dt":
            return parse_dt(spec[1])
        if t == "dts":
            return spec[1]
        if t == "uri":
            return Identifier(spec[1])
        if t == "lit":
            dt = None if spec[2] is None else self.name(spec[2])
            return Literal(spec[1], dt, spec[3])
        return self.name(spec)

    # ---------------------------------------------------------------- execute
    def execute(self, op):
        """Run one operation; never raises for library errors."""
        self.step += 1
        fn = getattr(self, "op_" + op[0], None)
        if fn is None:
            raise ValueError("unknown operation %r" % (op[0],))
        try:
            out = fn(*op[1:])
        except Skip as s:
            out = Out("skip", info={"why": str(s)})
        self.log.append([op[0], out.summary()])
        return out

    def _call(self, thunk, summarise=None):
        try:
            res = thunk()
        except Skip:
            raise
        except Exception as e:  # library error: the oracles judge it
            return Out("exc", exc=e)
        info = {}
        if summarise is not None:
            info["sum"] = summarise(res)
        return Out("ok", result=res, info=info)

    # containers ----------------------------------------------------------
    def op_doc(self, h):
        if h in self.containers:
            raise Skip("dup")
        out = self._call(lambda: ProvDocument())
        if out.status == "ok":
            self.register_container(h, out.result, "doc")
        return out

    def op_fbundle(self, h, idspec, nslist):
        if h in self.containers:
            raise Skip("dup")
        ident = None if idspec is None else self.name(idspec)
        nss = None if nslist is None else [Namespace(p, u) for p, u in nslist]
        out = self._call(lambda: ProvBundle(identifier=ident, namespaces=nss))
        if out.status == "ok":
            self.register_container(h, out.result, "free")
        return out

    def op_bundle(self, h, dh, idspec):
        if h in self.containers:
            raise Skip("dup")
        d = self.doc(dh)
        ident = self.name(idspec)
        out = self._call(lambda: d.bundle(ident), lambda b: observe._uri(b.identifier))
        if out.status == "ok":
            self.register_container(h, out.result, "bundle", dh)
        return out

    # namespaces ----------------------------------------------------------
    def op_add_ns(self, ch, prefix, uri, form):
        c = self.cont(ch)
        if form == 0:
            thunk = lambda: c.add_namespace(prefix, uri)
        else:
            thunk = lambda: c.add_namespace(Namespace(prefix, uri))
        out = self._call(thunk, lambda ns: [ns.prefix, ns.uri])
        if out.status == "ok":
            # the first object obtained for this (container, prefix) is the one later
            # "nsobj" specs mean (the generator's bookkeeping also keeps the first request)
            self.nsobjs.setdefault((ch, prefix), out.result)
        return out

    def op_set_default(self, ch, uri):
        c = self.cont(ch)
        # C03's usage discipline: a scope's default namespace is not re-bound to a
        # different URI after it has been set or adopted (read conservatively: nor after
        # the scope could have resolved bare names through an ancestor's default)
        cur = c.get_default_namespace()
        if cur is not None and cur.uri != uri:
            raise Skip("discipline: default already bound")
        if cur is None and c.is_bundle() and c.document is not None:
            pd = c.document.get_default_namespace()
            if pd is not None and pd.uri != uri:
                raise Skip("discipline: inherited default in use")
        return self._call(lambda: c.set_default_namespace(uri))

    def op_resolve(self, ch, spec):
        c = self.cont(ch)
        x = self.name(spec)
        if isinstance(x, ProvRecord):
            x = x.identifier
        return self._call(
            lambda: c.valid_qualified_name(x),
            lambda q: None if q is None else [str(q), q.uri],
        )

    # records -------------------------------------------------------------
    def _extras(self, extra, form):
        pairs = [(self.name(a), self.value(v)) for a, v in extra]
        if form == "dict":
            d = {}
            ok = True
            for a, v in pairs:
                try:
                    if a in d:
                        ok = False
                        break
                    d[a] = v
                except TypeError:
                    ok = False
                    break
            if ok:
                return d
        return pairs

    def op_rec(self, rh, ch, kind, idspec, formal, extra, via, form="pairs"):
        if rh in self.records:
            raise Skip("dup")
        c = self.cont(ch)
        ident = None if idspec is None else self.name(idspec)
        if isinstance(ident, ProvRecord):
            ident = ident.identifier
        fvals = {k: self.value(v) for k, v in formal.items()}
        extras = self._extras(extra, form) if extra else None
        names = pools.KINDS[kind][1]
        if via == "conv" and kind in pools.CONVENIENCE:
            okind, meth, params, has_attrs = pools.CONVENIENCE[kind]
            first = names[0]
            owner = fvals.get(first)
            if (
                isinstance(owner, ProvRecord)
                and owner.bundle is c
                and TYPE_KIND.get(owner.get_type().uri) == okind
                and ident is None
                and (has_attrs or not extras)
                and all(k == first or k in params for k in fvals)
            ):
                args = [fvals.get(p) for p in params]
                if args[0] is None:
                    via = "new_record"
                else:
                    kw = {"attributes": extras} if has_attrs else {}
                    before = len(c.get_records())

                    def thunk():
                        getattr(owner, meth)(*args, **kw)
                        recs = c.get_records()
                        if len(recs) != before + 1:
                            return None
                        return recs[-1]

                    return self._finish_rec(rh, ch, kind, self._call(thunk, self._recsum))
            else:
                via = "new_record"
        subtype = None
        if via in ("revision", "quotation", "primary_source", "collection"):
            subtype = {"revision": "Revision", "quotation": "Quotation", "primary_source": "PrimarySource",
                       "collection": "Collection"}[via]
            base_kind = "entity" if via == "collection" else "derivation"
            if kind != base_kind:
                via = "new_record"
                subtype = None
            else:
                fname0 = via
                via = "factory"
        if via == "factory":
            fname, params, has_id, has_other = pools.FACTORIES[kind]
            if subtype is not None:
                fname = fname0
            if (ident is not None and not has_id) or (extras and not has_other):
                via = "new_record"
            elif params and fvals.get(params[0]) is None and kind not in ("activity",):
                via = "new_record"  # first positional argument is mandatory in the signature
            elif kind in ("communication", "attribution", "influence", "delegation",
                          "derivation", "specialization", "alternate", "mention",
                          "membership") and fvals.get(params[1]) is None:
                via = "new_record"  # second positional argument mandatory too
            else:
                args = [fvals.get(p) for p in params]
                kw = {}
                if kind in ("entity", "activity", "agent"):
                    args = [ident] + args
                elif has_id:
                    kw["identifier"] = ident
                if has_other:
                    kw["other_attributes"] = extras
                out = self._call(lambda: getattr(c, fname)(*args, **kw), self._recsum)
                out.info["subtype"] = subtype
                return self._finish_rec(rh, ch, kind, out)
        # generic path
        fattrs = {PROV[k]: v for k, v in fvals.items()}
        rtype = KIND_TYPE[kind]
        return self._finish_rec(
            rh, ch, kind, self._call(lambda: c.new_record(rtype, ident, fattrs, extras), self._recsum)
        )

    @staticmethod
    def _recsum(r):
        return None if r is None else repr(observe.rec_obs(r))

    def _finish_rec(self, rh, ch, kind, out):
        if out.status == "ok" and out.result is not None:
            self.records[rh] = out.result
            self.rmeta[rh] = {"cont": ch, "kind": kind}
        return out

    def op_add_attrs(self, ref, attrs, form):
        r = self.rec(ref)
        a = self._extras(attrs, form)
        return self._call(lambda: r.add_attributes(a))

    def op_set_time(self, ref, start, end):
        r = self.rec(ref)
        if not hasattr(r, "set_time"):
            raise Skip("not an activity")
        s = None if start is None else self.value(start)
        e = None if end is None else self.value(end)
        return self._call(lambda: r.set_time(s, e))

    def op_add_type(self, ref, vspec):
        r = self.rec(ref)
        v = self.value(vspec)
        return self._call(lambda: r.add_asserted_type(v))

    def op_copy(self, rh, ref):
        if rh in self.records:
            raise Skip("dup")
        r = self.rec(ref)
        out = self._call(lambda: r.copy(), self._recsum)
        if out.status == "ok":
            self.records[rh] = out.result
            self.rmeta[rh] = {"cont": None, "kind": TYPE_KIND.get(r.get_type().uri)}
        return out

    def op_add_record(self, rh, ch, ref):
        if rh in self.records:
            raise Skip("dup")
        c = self.cont(ch)
        r = self.rec(ref)
        out = self._call(lambda: c.add_record(r), self._recsum)
        if out.status == "ok":
            self.records[rh] = out.result
            self.rmeta[rh] = {"cont": ch, "kind": TYPE_KIND.get(r.get_type().uri)}
        return out

    # derivations ---------------------------------------------------------
    def op_doc_from(self, h, ch):
        if h in self.containers:
            raise Skip("dup")
        c = self.cont(ch)
        out = self._call(lambda: ProvDocument(records=c.get_records()))
        if out.status == "ok":
            self.register_container(h, out.result, "doc")
        return out

    def op_update(self, ch, oh):
        c = self.cont(ch)
        o = self.cont(oh)
        if o is c:
            raise Skip("discipline: update with itself")
        out = self._call(lambda: c.update(o))
        self.rescan()
        return out

    def op_update_bad(self, ch, what):
        c = self.cont(ch)
        arg = {"none": None, "str": "not a bundle", "list": []}[what]
        return self._call(lambda: c.update(arg))

    def op_add_bundle(self, dh, bh, idspec):
        d = self.doc(dh)
        b = self.cont(bh)
        ident = None if idspec is None else self.name(idspec)
        if b.is_bundle() and b.document is not None:
            # re-attaching a bundle that a document already owns (moving it, or listing
            # it twice under another identifier) is outside every property's quantifier
            raise Skip("discipline: bundle already attached")
        if b is d:
            raise Skip("discipline: document added to itself")
        out = self._call(lambda: d.add_bundle(b, ident))
        self.rescan()
        return out

    def op_add_bundle_bad(self, dh, what):
        d = self.doc(dh)
        arg = {"none": None, "str": "not a bundle", "dict": {}}[what]
        return self._call(lambda: d.add_bundle(arg))

    def op_unified(self, h, ch):
        if h in self.containers:
            raise Skip("dup")
        c = self.cont(ch)
        out = self._call(lambda: c.unified())
        if out.status == "ok":
            if id(out.result) in self._known:
                self.containers[h] = out.result
                self.cmeta[h] = dict(self.cmeta[self._known[id(out.result)]], alias=self._known[id(out.result)])
            else:
                self.register_container(h, out.result, "doc" if out.result.is_document() else "free")
            self.rescan()
        return out

    def op_flattened(self, h, dh):
        if h in self.containers:
            raise Skip("dup")
        d = self.doc(dh)
        out = self._call(lambda: d.flattened())
        if out.status == "ok":
            if id(out.result) in self._known:
                self.containers[h] = out.result
                self.cmeta[h] = dict(self.cmeta[self._known[id(out.result)]], alias=self._known[id(out.result)])
            else:
                self.register_container(h, out.result, "doc")
            self.rescan()
        return out

    def op_rebuild(self, h, dh, variant):
        """A partner document rebuilt from dh's captured content (see rebuild.py)."""
        from . import rebuild

        if h in self.containers:
            raise Skip("dup")
        d = self.doc(dh)
        out = self._call(lambda: rebuild.rebuild(d, variant))
        if out.status == "ok":
            doc, info = out.result
            out.result = doc
            out.info.update(info)
            out.info["sum"] = info
            self.register_container(h, doc, "doc")
            self.rescan()
        return out

    # round trips through the baseline I/O configuration --------------------
    def op_roundtrip(self, h, dh, fmt, wopts, io_w, io_r, between=None):
        """serialize(format=fmt, **wopts) then deserialize; new document gets handle h.

        io_w in {"str","text","bin"}; io_r in {"content","bytes","text","bin"}.
        """
        if h in self.containers:
            raise Skip("dup")
        d = self.doc(dh)

        def write():
            if io_w == "str":
                return d.serialize(format=fmt, **wopts)
            if io_w == "text":
                s = io.StringIO()
                d.serialize(s, format=fmt, **wopts)
                return s.getvalue()
            s = io.BytesIO()
            d.serialize(s, format=fmt, **wopts)
            return s.getvalue().decode("utf-8")

        wout = self._call(write)
        if wout.status != "ok":
            wout.info["phase"] = "write"
            return wout
        text = wout.result
        for env_op in between or ():
            # hidden-input perturbations between writing and reading
            getattr(self, "op_" + env_op[0])(*env_op[1:])

        def read():
            if io_r == "reuse":
                # one reader object used twice (prov.serializers is public): the second
                # result must be as good as the first, and must not disturb the first
                from prov import serializers
                reader = serializers.get(fmt)()
                first = reader.deserialize(io.StringIO(text))
                snap = observe.doc_multiset(first)
                second = reader.deserialize(io.StringIO(text))
                if observe.doc_multiset(first) != snap or second is first:
                    raise AssertionError("a second deserialize() through the same reader object changed the first result")
                return second
            if io_r == "content":
                return ProvDocument.deserialize(content=text, format=fmt)
            if io_r == "bytes":
                return ProvDocument.deserialize(content=text.encode("utf-8"), format=fmt)
            if io_r == "text":
                return ProvDocument.deserialize(source=io.StringIO(text), format=fmt)
            return ProvDocument.deserialize(source=io.BytesIO(text.encode("utf-8")), format=fmt)

        rout = self._call(read)
        rout.info["text"] = text
        if rout.status != "ok":
            rout.info["phase"] = "read"
            return rout
        self.register_container(h, rout.result, "doc")
        self.rescan()
        rout.info["sum"] = hashlib.sha1(repr(observe.doc_multiset(rout.result)).encode()).hexdigest()[:12]
        return rout

    # observers -----------------------------------------------------------
    def op_eq(self, ah, bh):
        a = self.cont(ah)
        b = self.cont(bh)
        return self._call(lambda: (a == b, b == a, a != b, b != a), lambda t: list(t))

    def op_compare_cli(self, ah, bh, fmt, fmt2=None):
        """scripts/prov-compare run in-process on two files holding the documents."""
        import os, runpy, shutil, sys, tempfile, contextlib, io as _io
        from . import boot as _boot

        a, b = self.doc(ah), self.doc(bh)
        script = os.path.join(_boot.REPO, "scripts", "prov-compare")

        def thunk():
            d = tempfile.mkdtemp(prefix="provsim-cli-")
            try:
                f2 = fmt2 or fmt
                fa, fb = os.path.join(d, "a." + fmt), os.path.join(d, "b." + f2)
                for doc, path, ff in ((a, fa, fmt), (b, fb, f2)):
                    with open(path, "w", encoding="utf-8") as f:
                        f.write(doc.serialize(format=ff))
                # what the two files denote, read by the library (fidelity is C01/C02's business)
                from prov.model import ProvDocument
                da = ProvDocument.deserialize(source=fa, format=fmt)
                db = ProvDocument.deserialize(source=fb, format=f2)
                argv = sys.argv
                sys.argv = [script, fa, fb, "-f", fmt, "-F", f2]
                err = _io.StringIO()
                try:
                    with contextlib.redirect_stderr(err), contextlib.redirect_stdout(_io.StringIO()):
                        runpy.run_path(script, run_name="__main__")
                    code = 0
                except SystemExit as e:
                    code = e.code
                finally:
                    sys.argv = argv
                if code is None or code is False:
                    code = 0
                elif code is True:
                    code = 1
                return (code, da, db)
            finally:
                shutil.rmtree(d, ignore_errors=True)

        return self._call(thunk, lambda t: t[0])

    def op_req(self, ra, rb):
        a = self.rec(ra)
        b = self.rec(rb)
        return self._call(
            lambda: (a == b, b == a, a != b, hash(a) == hash(b)), lambda t: list(t)
        )

    def op_hash(self, ref):
        r = self.rec(ref)
        return self._call(lambda: hash(r) == hash(r), lambda t: t)

    def op_get_record(self, ch, spec):
        c = self.cont(ch)
        x = self.name(spec)
        if isinstance(x, ProvRecord):
            x = x.identifier
        return self._call(
            lambda: c.get_record(x),
            lambda rs: None if rs is None else [repr(observe.rec_obs(r)) for r in rs],
        )

    def op_get_records(self, ch, clsname):
        c = self.cont(ch)
        cls = {"element": ProvElement, "relation": ProvRelation, "none": None}.get(clsname)
        if clsname in pools.KINDS:
            cls = PROV_REC_CLS[KIND_TYPE[clsname]]
        return self._call(lambda: list(c.get_records(cls)), lambda rs: len(rs))

    def op_provn(self, dh):
        d = self.cont(dh)
        return self._call(lambda: d.get_provn(), text_sum)

    def op_serialize(self, dh, fmt, wopts):
        d = self.doc(dh)
        return self._call(
            lambda: d.serialize(format=fmt, **wopts),
            lambda t: text_sum(t) if fmt != "rdf" else len(t.splitlines()),
        )

    def op_graph(self, dh):
        from prov.graph import prov_to_graph

        d = self.doc(dh)
        return self._call(lambda: prov_to_graph(d), lambda g: [g.number_of_nodes(), g.number_of_edges()])

    def op_dot(self, dh, opts):
        from prov.dot import prov_to_dot

        d = self.doc(dh)
        return self._call(
            lambda: prov_to_dot(d, **opts).to_string(),
            lambda t: len(t),
        )

    def op_peek(self, ref, which, spec=None):
        """Read-only accessors of a record (must leave no observable trace)."""
        r = self.rec(ref)
        name = None if spec is None else self.name(spec)

        def thunk():
            if which == "label":
                return repr(r.label)
            if which == "value":
                return len(r.value)
            if which == "types":
                return len(r.get_asserted_types())
            if which == "attribute":
                return len(r.get_attribute(name))
            if which == "args":
                return len(r.args)
            if which == "formal":
                return len(r.formal_attributes)
            if which == "extra":
                return len(r.extra_attributes)
            if which == "repr":
                return len(repr(r))
            if which == "str":
                return len(str(r))
            if which == "times":
                return [getattr(r, "get_startTime", lambda: None)() is None,
                        getattr(r, "get_endTime", lambda: None)() is None]
            if which == "hash":
                return hash(r) == hash(r)
            raise ValueError(which)

        return self._call(thunk, lambda x: x if not isinstance(x, str) else len(x))

    def op_records_list(self, ch):
        c = self.cont(ch)

        def thunk():
            lst = c.records
            n = len(lst)
            lst.append(None)
            del lst[:]
            return n

        return self._call(thunk, lambda n: n)

    # environment ---------------------------------------------------------
    def op_clock_jump(self, seconds):
        from . import seams

        seams.CLOCK.jump(seconds)
        return Out("ok", info={"sum": seconds})

    def op_restart_lite(self):
        from . import seams

        seams.restart_lite()
        return Out("ok")

    # ---------------------------------------------------------------- digests
    def digest(self):
        h = hashlib.sha256()
        h.update(json.dumps(self.log, sort_keys=True, default=repr).encode())
        for ch, c in self.all_containers():
            h.update(ch.encode())
            h.update(repr(observe.cont_obs(c)).encode())
            h.update(repr(observe.ns_obs(c)).encode())
        return h.hexdigest()


def run_ops(ops, cfg=None, hooks=None):
    """Execute a whole history on a fresh world.  hooks: object with before/after/final."""
    w = World(cfg)
    for i, op in enumerate(ops):
        if hooks is not None:
            hooks.before(w, i, op)
        out = w.execute(op)
        if hooks is not None:
            hooks.after(w, i, op, out)
    if hooks is not None:
        hooks.final(w)
    return w
