"""Make sure the library under test is /repo's current working tree.

Imported first by every entry point.  Puts REPO/src at the front of sys.path and
asserts that the imported package really lives there.
"""
import os
import sys

REPO = os.environ.get("PROVSIM_REPO", "/repo")
SRC = os.path.join(REPO, "src")
VERIF = os.path.dirname(os.path.dirname(os.path.abspath(__file__)))

if SRC in sys.path:
    sys.path.remove(SRC)
sys.path.insert(0, SRC)
sys.dont_write_bytecode = True

import logging
import warnings

warnings.filterwarnings("ignore")

logging.disable(logging.CRITICAL)  # the library logs warnings we provoke on purpose

import prov  # noqa: E402

_real = os.path.realpath(prov.__file__)
if not _real.startswith(os.path.realpath(SRC) + os.sep):
    raise SystemExit(
        "HARNESS-ERROR: prov imported from %s, expected under %s" % (_real, SRC)
    )
