"""provsim - deterministic simulation with fault injection for trungdong/prov.

See /verif/DESIGN.md.  Everything here runs the library from /repo/src (the
current working tree) and never from an installed copy.
"""
