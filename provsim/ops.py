"""Seeded generator of operations.

``Gen.next_op(world)`` draws one operation from the run's PRNG using only the
harness's own bookkeeping (handles it created, namespaces it requested): it never
iterates a set or dict of library objects, so the *schedule* is the same under
every PYTHONHASHSEED even where the *outcome* differs.
"""
from collections import defaultdict

from . import pools

DEFAULT_PROFILE = {
    # operation family weights
    "w": {
        "doc": 1,
        "bundle": 2,
        "fbundle": 0,
        "add_ns": 6,
        "set_default": 1,
        "resolve": 0,
        "rec": 20,
        "add_attrs": 4,
        "set_time": 0,
        "add_type": 0,
        "copy": 0,
        "add_record": 0,
        "doc_from": 0,
        "update": 0,
        "add_bundle": 0,
        "unified": 0,
        "flattened": 0,
        "roundtrip": 0,
        "eq": 0,
        "get_record": 0,
        "get_records": 0,
        "export": 0,
        "peek": 0,
        "rebuild": 0,
        "get_record_absent": 0,
        "clock_jump": 0,
        "restart_lite": 0,
    },
    "max_docs": 2,
    "max_bundles": 3,  # per document
    "steps": (8, 40),
    "p_clash": 0.3,  # how often a namespace request deliberately clashes
    "p_anon": 0.5,  # relations without identifier
    "p_reuse_id": 0.35,  # identifier reuse
    "p_extra": 0.6,  # record gets extra attributes
    "name_kinds": {"nsobj": 5, "qn": 3, "pl": 3, "bare": 1, "full": 1},
    "value_kinds": {
        "s": 5, "i": 3, "f": 2, "b": 2, "dt": 2, "uri": 2, "qnv": 3, "lang": 2,
        "litf": 2, "litn": 1,
    },
    "locals": pools.LOCALS,
    "odd_locals": False,  # allow n/1, 1st ... as local names
    "attr_prov": 0.3,  # extra attribute is prov:type/label/value/location/role
    "defaults": True,  # default namespaces in play
    "bundle_defaults": True,
    "bundle_ns": True,  # bundles declare their own prefixes
    "avoid_f12": False,  # (steering switch) child never binds a prefix/default its parent binds differently
    "mask": "any",  # which optional formal args present: any | first2 | all
    "kinds": pools.KIND_NAMES,
    "vias": {"new_record": 2, "factory": 3, "conv": 1},
    "time_as_string": 0.3,
    "formal_as": {"nsobj": 3, "qn": 2, "pl": 2, "rec": 3, "full": 0, "bare": 1},
    "multi_value": 0.3,  # add a second value to an existing extra attribute
    "fmt": "json",
    "mention": True,
    "p_roundtrip_derived": 0.0,  # round trips of documents that were themselves derived / read
    "p_subfactory": 0.0,  # revision()/quotation()/primary_source()/collection() factories
    "steer_f11b": False,  # add_bundle identifiers only through the document's namespace objects
    "mutate_derived": False,  # derived documents are targets of ordinary operations too
}


def merged(base, **over):
    p = dict(base)
    for k, v in over.items():
        if isinstance(v, dict) and isinstance(p.get(k), dict):
            d = dict(p[k])
            d.update(v)
            p[k] = d
        else:
            p[k] = v
    return p


def wchoice(rng, table):
    items = [(k, w) for k, w in table.items() if w > 0]
    tot = sum(w for _, w in items)
    x = rng.random() * tot
    acc = 0.0
    for k, w in items:
        acc += w
        if x < acc:
            return k
    return items[-1][0]


class Gen(object):
    def __init__(self, rng, profile):
        self.rng = rng
        self.p = profile
        self.n = 0
        # harness bookkeeping (what *we* asked for, in order)
        self.docs = []  # doc handles
        self.bundles = defaultdict(list)  # doc handle -> [bundle handles]
        self.free = []  # free bundle handles
        self.parent = {}  # container handle -> parent doc handle | None
        self.ns_req = defaultdict(list)  # container -> [(prefix, uri)] requested (add_ns / qn)
        self.ns_obj = defaultdict(list)  # container -> [(prefix, uri)] requested via add_ns
        self.default_req = {}  # container -> uri (first set_default/empty-prefix request)
        self.recs = defaultdict(list)  # container -> [(rh, kind, has_id)]
        self.ids = defaultdict(list)  # container -> [name spec of identifiers used]
        self.derived_docs = []  # derived handles that are documents
        self.derived = []  # handles produced by unified/flattened/roundtrip/doc_from
        self.formals = {}  # rh -> (container, kind, {formal name: value spec})

    # -------------------------------------------------------------- helpers
    def fresh(self, pfx):
        self.n += 1
        return "%s%d" % (pfx, self.n)

    def _add_doc(self, h):
        self.docs.append(h)
        self.parent[h] = None

    def _add_bundle(self, h, dh):
        if dh is None:
            self.free.append(h)
        else:
            self.bundles[dh].append(h)
        self.parent[h] = dh

    def _add_derived(self, h, is_doc=True):
        self.derived.append(h)
        if is_doc:
            self.derived_docs.append(h)

    def containers(self):
        out = []
        for d in self.docs:
            out.append(d)
            out.extend(self.bundles[d])
        out.extend(self.free)
        if self.p.get("mutate_derived"):
            for d in self.derived:
                out.append(d)
                out.extend(self.bundles[d])
                if d in self.derived_docs:
                    # bundles the library created inside a derived document: "<doc>#<k>"
                    out.append("%s#%d" % (d, self.rng.randrange(3)))
        return out

    def pick_container(self, bias_bundle=0.4):
        cs = self.containers()
        if not cs:
            return None
        bs = [c for c in cs if self.parent.get(c) is not None or c in self.free]
        if bs and self.rng.random() < bias_bundle:
            return self.rng.choice(bs)
        return self.rng.choice(cs)

    def scope_prefixes(self, ch, table=None):
        """(prefix, uri, owner) requested in ch and its parent, own first."""
        table = self.ns_req if table is None else table
        out = [(p, u, ch) for p, u in table.get(ch, [])]
        par = self.parent.get(ch)
        if par is not None:
            out += [(p, u, par) for p, u in table.get(par, [])]
        return out

    def parent_binding(self, ch, prefix):
        par = self.parent.get(ch)
        if par is None:
            return None
        for p, u in self.ns_req.get(par, []):
            if p == prefix:
                return u
        return None

    def scope_default(self, ch):
        d = self.default_req.get(ch)
        if d is None and self.parent.get(ch) is not None:
            d = self.default_req.get(self.parent[ch])
        return d

    def _ns_allowed(self, ch, prefix, uri):
        """Discipline steering around F12 (see DESIGN 3.10): a child scope never binds a
        prefix that its parent binds (or has requested) with a different URI."""
        if not self.p["avoid_f12"]:
            return True
        par = self.parent.get(ch)
        if par is None:
            # a document: its bundles may already have resolved `prefix` through it, or
            # not at all; binding it now changes nothing for names already handed out
            # unless a child used the *absence* - which cannot hand out a name.
            return True
        for p, u in self.ns_req.get(par, []):
            if p == prefix and u != uri:
                return False
        if prefix in pools.RESERVED and pools.RESERVED[prefix] != uri:
            return True  # clash with a reserved prefix is resolved by minting: no shadowing
        return True

    def _default_allowed(self, ch, uri):
        if not self.p["defaults"]:
            return False
        if self.parent.get(ch) is not None and not self.p["bundle_defaults"]:
            return False
        cur = self.default_req.get(ch)
        if cur is not None and cur != uri:
            return False  # C03's stated discipline: never re-bind a default
        if self.p["avoid_f12"]:
            par = self.parent.get(ch)
            if par is not None:
                pd = self.default_req.get(par)
                if cur is None and pd is not None and pd != uri:
                    return False
        return True

    def local(self):
        ls = list(self.p["locals"])
        if self.p["odd_locals"]:
            ls = ls + pools.LOCALS_ODD
        return self.rng.choice(ls)

    def pick_ns(self, ch):
        """A (prefix, uri) request: mostly plausible, sometimes deliberately clashing."""
        rng = self.rng
        have = self.scope_prefixes(ch)
        if have and rng.random() < self.p["p_clash"]:
            p, u, _ = rng.choice(have)
            mode = rng.randrange(3)
            if mode == 0:  # same prefix, other URI
                return p, rng.choice(pools.URIS)
            if mode == 1:  # same URI, other prefix
                return rng.choice(pools.PREFIXES), u
            return p, u  # identical re-request
        return rng.choice(pools.PREFIXES), rng.choice(pools.URIS)

    # ----------------------------------------------------------- name specs
    def name_spec(self, ch, kinds=None, for_attr=False):
        rng = self.rng
        kinds = kinds or self.p["name_kinds"]
        for _ in range(8):
            k = wchoice(rng, kinds)
            if k == "nsobj":
                have = self.scope_prefixes(ch, self.ns_obj)
                if rng.random() < self.p.get("p_foreign_nsobj", 0.08):
                    # a Namespace object obtained from *another* container (user code keeps
                    # `ex = doc1.add_namespace(...)` around and uses ex[...] with doc2 as well)
                    others = [(p, u, c) for c in list(self.ns_obj) if c != ch for p, u in self.ns_obj[c]]
                    if others:
                        p, u, owner = rng.choice(others)
                        if self._ns_allowed(ch, p, u):
                            self.ns_req[ch].append((p, u))
                            return ["nsobj", owner, p, self.local()]
                if not have:
                    continue
                p, u, owner = rng.choice(have)
                return ["nsobj", owner, p, self.local()]
            if k == "qn":
                if rng.random() < 0.12 and self._default_allowed(ch, None) is not False:
                    # empty prefix: a name in a default namespace
                    u = self.scope_default(ch) or rng.choice(pools.URIS)
                    if self._default_allowed(ch, u):
                        self.default_req.setdefault(ch, u)
                        return ["qn", "", u, self.local()]
                    continue
                have = self.scope_prefixes(ch)
                if have and rng.random() < 0.6:
                    p, u, _ = rng.choice(have)
                else:
                    p, u = self.pick_ns(ch)
                if not self._ns_allowed(ch, p, u):
                    continue
                self.ns_req[ch].append((p, u))
                return ["qn", p, u, self.local()]
            if k == "pl":
                have = self.scope_prefixes(ch)
                if not have:
                    continue
                p, u, _ = rng.choice(have)
                return ["pl", p, self.local()]
            if k == "bare":
                if self.scope_default(ch) is None:
                    continue
                return ["bare", self.local()]
            if k == "full":
                have = self.scope_prefixes(ch)
                if not have:
                    continue
                p, u, _ = rng.choice(have)
                return ["full", u, self.local()]
        # fall back: a fresh QualifiedName in an ordinary namespace
        p, u = rng.choice(pools.PLAIN_PREFIXES), rng.choice(pools.URIS)
        if not self._ns_allowed(ch, p, u):
            p = "p2"
            u = self.parent_binding(ch, "p2") or u
        self.ns_req[ch].append((p, u))
        return ["qn", p, u, self.local()]

    def ident_spec(self, ch, kind=None):
        rng = self.rng
        bykind = self.__dict__.setdefault("_ids_by_kind", {})
        if self.ids[ch] and rng.random() < self.p["p_reuse_id"]:
            same = bykind.get((ch, kind))
            if same and rng.random() < self.p.get("reuse_same_kind", 0.3):
                return rng.choice(same)  # an identifier already used by a record of this kind
            s = rng.choice(self.ids[ch])
            bykind.setdefault((ch, kind), []).append(s)
            return s
        s = self.name_spec(ch)
        self.ids[ch].append(s)
        bykind.setdefault((ch, kind), []).append(s)
        return s

    # ---------------------------------------------------------- value specs
    def value_spec(self, ch):
        rng = self.rng
        k = wchoice(rng, self.p["value_kinds"])
        if k == "s":
            return ["s", rng.choice(pools.STRINGS)]
        if k == "i":
            return ["i", rng.choice(pools.INTS)]
        if k == "f":
            return ["f", repr(rng.choice(pools.FLOATS))]
        if k == "b":
            return ["b", rng.random() < 0.5]
        if k == "dt":
            return ["dt", rng.choice(pools.DATETIMES)]
        if k == "uri":
            return ["uri", rng.choice(pools.VALUE_URIS)]
        if k == "qnv":
            if rng.random() < 0.08:
                # the name of a PROV (sub)type as the value of an ordinary attribute
                return ["qn", "prov", pools.PROV_URI, rng.choice(pools.PROV_TYPES)]
            return self.name_spec(ch, {"nsobj": 4, "qn": 3})
        if k == "lang":
            return ["lit", rng.choice(pools.STRINGS), None, rng.choice(pools.LANGS)]
        if k == "litf":
            u, l = rng.choice(pools.FOREIGN_DATATYPES)
            return ["lit", rng.choice(["1", "abc", "2012", "", "0A", "x y", "007", "+5", " 3 ", "ex:x", "o:b", "x"]),
                    self.datatype_spec(ch, u, l), None]
        if k == "litn":
            if rng.random() < 0.06:
                return ["lit", rng.choice(pools.UNPYTHONABLE_DATETIMES), ["qn", "xsd", pools.XSD_URI, "dateTime"], None]
            t, lex, _ = rng.choice(pools.NATIVE_LITERALS)
            return ["lit", lex, ["qn", "xsd", pools.XSD_URI, t], None]
        raise ValueError(k)

    def datatype_spec(self, ch, uri, local):
        if uri == pools.XSD_URI:
            return ["qn", "xsd", uri, local]
        # a datatype in a user namespace: use a declared prefix when there is one
        if self.rng.random() < 0.6:
            for p, u, owner in self.scope_prefixes(ch, self.ns_obj):
                if u == uri:
                    return ["nsobj", owner, p, local]
        return ["qn", self.rng.choice(["dt", "dt", "ex", "o"]), uri, local]

    def _spec_ns_uri(self, ch, spec):
        """Namespace URI a name spec was *requested* under, as far as the generator knows."""
        t = spec[0]
        if t == "qn":
            return spec[2]
        if t == "full":
            return spec[1]
        if t == "nsobj":
            for p, u in self.ns_obj.get(spec[1], []):
                if p == spec[2]:
                    return u
        if t == "pl":
            for p, u, _ in self.scope_prefixes(ch):
                if p == spec[1]:
                    return u
        if t == "bare":
            return self.scope_default(ch)
        return None

    def attr_name_spec(self, ch):
        rng = self.rng
        if rng.random() < self.p["attr_prov"]:
            return ["qn", "prov", pools.PROV_URI, rng.choice(pools.PROV_EXTRA_ATTRS)]
        for _ in range(6):
            spec = self.name_spec(ch, for_attr=True)
            # attribute names in the PROV namespace are chosen deliberately (above, and the
            # formal ones by the oracles that want them), never by accident through a user
            # prefix bound to the PROV namespace: prov:entity next to prov:collection is the
            # multi-member membership path that C05 disclaims
            if self._spec_ns_uri(ch, spec) != pools.PROV_URI:
                return spec
        return ["qn", "ex", "http://ex.org/a/", self.local()]

    def foreign_formal_pair(self, ch, kind):
        """A PROV formal attribute that is *not* formal for this record kind, given among
        the other attributes (e.g. prov:time on an attribution): accepted by the API,
        single-valued, and must survive like any other attribute."""
        own = set(pools.KINDS[kind][1])
        cands = [f for f in ("time", "activity", "entity", "agent", "plan", "trigger") if f not in own]
        f = self.rng.choice(cands)
        return [["qn", "prov", pools.PROV_URI, f], self.formal_value(ch, f, kind)]

    def extras(self, ch, n=None):
        rng = self.rng
        n = rng.randrange(1, 4) if n is None else n
        out = []
        for _ in range(n):
            a = self.attr_name_spec(ch)
            v = self.value_for_attr(ch, a)
            out.append([a, v])
            if rng.random() < self.p["multi_value"]:
                # (never the same URI once as a qualified name and once as xsd:anyURI in one
                # attribute: the library's == calls those equal, so like 1/True/1.0 they are
                # "two values that compare equal but differ in kind", which C01 excludes)
                out.append([a, self.value_for_attr(ch, a)])
        return out

    def value_for_attr(self, ch, a):
        rng = self.rng
        if a[0] == "qn" and a[1] == "prov" and a[3] == "type" and rng.random() < 0.5:
            return ["qn", "prov", pools.PROV_URI, rng.choice(pools.PROV_TYPES)]
        if a[0] == "qn" and a[1] == "prov" and a[3] == "label" and rng.random() < 0.7:
            if rng.random() < 0.5:
                return ["s", rng.choice(pools.STRINGS)]
            return ["lit", rng.choice(pools.STRINGS), None, rng.choice(pools.LANGS)]
        return self.value_spec(ch)

    # -------------------------------------------------------------- records
    def formal_value(self, ch, fname, kind):
        rng = self.rng
        if fname in pools.TIME_FORMALS:
            iso = rng.choice(pools.DATETIMES)
            if rng.random() < self.p["time_as_string"]:
                return ["dts", iso]
            return ["dt", iso]
        k = wchoice(rng, self.p["formal_as"])
        if k == "rec":
            cands = [r for r in self.recs[ch] if r[2]]
            if rng.random() < self.p.get("p_foreign_rec", 0.15):
                # a record object that belongs to another container (other prefixes, other scope)
                others = [r for c in self.containers() if c != ch for r in self.recs[c] if r[2]]
                if others:
                    return ["rec", ["h", rng.choice(others)[0]]]
            if cands:
                return ["rec", ["h", rng.choice(cands)[0]]]
            k = "nsobj"
        if self.ids[ch] and rng.random() < 0.6:
            s = rng.choice(self.ids[ch])
            return s
        s = self.name_spec(ch, {kk: w for kk, w in self.p["formal_as"].items() if kk != "rec"})
        return s

    def gen_rec(self, ch, kind=None, via=None):
        rng = self.rng
        kind = kind or rng.choice(self.p["kinds"])
        if kind == "mention" and not self.p["mention"]:
            kind = "specialization"
        tname, formals, is_el = pools.KINDS[kind]
        via = via or wchoice(rng, self.p["vias"])
        if is_el or rng.random() >= self.p["p_anon"]:
            idspec = self.ident_spec(ch, kind)
        else:
            idspec = None
        mask = self.p["mask"]
        formal = {}
        for i, f in enumerate(formals):
            if is_el:
                present = rng.random() < 0.5
            elif mask == "all":
                present = True
            elif mask == "first2":
                present = i < 2 or rng.random() < 0.5
            else:
                present = rng.random() < (0.85 if i < 2 else 0.5)
            if present:
                formal[f] = self.formal_value(ch, f, kind)
        extra = self.extras(ch) if rng.random() < self.p["p_extra"] else []
        if rng.random() < self.p.get("p_foreign_formal", 0.04):
            extra = extra + [self.foreign_formal_pair(ch, kind)]
        form = "dict" if rng.random() < 0.4 else "pairs"
        if via == "conv":
            if kind in pools.CONVENIENCE:
                okind = pools.CONVENIENCE[kind][0]
                owners = [r for r in self.recs[ch] if r[1] == okind]
                if owners:
                    formal[formals[0]] = ["rec", ["h", rng.choice(owners)[0]]]
                    idspec = None
                    if not pools.CONVENIENCE[kind][3]:
                        extra = []
                    for f in list(formal):
                        if f != formals[0] and f not in pools.CONVENIENCE[kind][2]:
                            del formal[f]
                    if pools.CONVENIENCE[kind][2][0] not in formal:
                        formal[pools.CONVENIENCE[kind][2][0]] = self.formal_value(
                            ch, pools.CONVENIENCE[kind][2][0], kind)
                else:
                    via = "factory"
            else:
                via = "factory"
        if via == "factory" and kind == "derivation" and rng.random() < self.p.get("p_subfactory", 0.0):
            via = rng.choice(["revision", "quotation", "primary_source"])
        if via == "factory" and kind == "entity" and rng.random() < self.p.get("p_subfactory", 0.0):
            via = "collection"
        if via == "factory" and not pools.FACTORIES[kind][2]:
            # specialization/alternate/mention/membership factories take no id/attributes
            if idspec is not None or extra:
                via = "new_record"
        if self.p.get("rdf_safe"):
            idspec, formal, extra, via = self._rdf_safe(ch, kind, idspec, formal, extra, via)
        rh = self.fresh("r")
        self.recs[ch].append((rh, kind, idspec is not None))
        self.formals[rh] = (ch, kind, dict(formal))
        return ["rec", rh, ch, kind, idspec, formal, extra, via, form]

    def _rdf_safe(self, ch, kind, idspec, formal, extra, via):
        """Bias towards C07's PROV-O-expressible space (the oracle's predicate decides)."""
        tname, formals, is_el = pools.KINDS[kind]
        if not is_el:
            for f in formals[:2]:
                if f not in formal:
                    formal[f] = self.formal_value(ch, f, kind)
            # relations are never typed with the name of a PROV class
            extra = [[a, v] for a, v in extra
                     if not (a[0] == "qn" and a[1] == "prov" and a[3] == "type" and v[0] == "qn" and v[1] == "prov")]
            if kind in ("specialization", "alternate", "membership"):
                idspec, extra = None, []
            if idspec is None and kind in ("attribution", "communication", "delegation", "influence"):
                extra = []
                for f in formals[2:]:
                    formal.pop(f, None)
        if idspec is not None:
            # one kind per identifier (per container)
            key = (ch, repr(idspec))
            seen = self.__dict__.setdefault("_id_kind", {})
            if seen.setdefault(key, kind) != kind:
                idspec = ["nsobj"] + list(self.name_spec(ch, {"nsobj": 1})[1:3]) + ["%s_%s%d" % (self.local(), kind[:2], self.n)] \
                    if self.scope_prefixes(ch, self.ns_obj) else idspec
        return idspec, formal, extra, via

    # ------------------------------------------------------------ operations
    def next_op(self, world=None):
        rng = self.rng
        if not self.docs:
            h = self.fresh("D")
            self._add_doc(h)
            return ["doc", h]
        for _ in range(20):
            k = wchoice(rng, self.p["w"])
            op = getattr(self, "g_" + k)()
            if op is not None:
                return op
        return self.g_rec()

    def g_doc(self):
        if len(self.docs) >= self.p["max_docs"]:
            return None
        h = self.fresh("D")
        self._add_doc(h)
        return ["doc", h]

    def g_bundle(self):
        ds = [d for d in self.docs if len(self.bundles[d]) < self.p["max_bundles"]]
        if not ds:
            return None
        dh = self.rng.choice(ds)
        h = self.fresh("B")
        spec = self.name_spec(dh)
        self._add_bundle(h, dh)
        return ["bundle", h, dh, spec]

    def g_fbundle(self):
        if len(self.free) >= 2:
            return None
        rng = self.rng
        h = self.fresh("F")
        ident = None
        if rng.random() < 0.7:
            p, u = rng.choice(pools.PLAIN_PREFIXES), rng.choice(pools.URIS)
            ident = ["qn", p, u, self.local()]
        nss = None
        self._add_bundle(h, None)
        if rng.random() < 0.5:
            nss = []
            for _ in range(rng.randrange(1, 3)):
                p, u = rng.choice(pools.PLAIN_PREFIXES), rng.choice(pools.URIS)
                nss.append([p, u])
                self.ns_req[h].append((p, u))
        return ["fbundle", h, ident, nss]

    def g_add_ns(self):
        ch = self.pick_container()
        if self.parent.get(ch) is not None and not self.p["bundle_ns"]:
            ch = self.parent[ch]
        p, u = self.pick_ns(ch)
        if not self._ns_allowed(ch, p, u):
            return None
        self.ns_req[ch].append((p, u))
        self.ns_obj.setdefault(ch, [])
        if not any(pp == p for pp, _ in self.ns_obj[ch]):
            self.ns_obj[ch].append((p, u))
        return ["add_ns", ch, p, u, self.rng.randrange(2)]

    def g_set_default(self):
        ch = self.pick_container()
        u = self.rng.choice(pools.URIS)
        if not self._default_allowed(ch, u):
            return None
        if self.default_req.get(ch) is not None:
            return None
        self.default_req[ch] = u
        return ["set_default", ch, u]

    def g_resolve(self):
        ch = self.pick_container()
        return ["resolve", ch, self.name_spec(ch)]

    def g_rec(self):
        ch = self.pick_container()
        return self.gen_rec(ch)

    def _pick_rec(self):
        cs = [c for c in self.containers() if self.recs[c]]
        if not cs:
            return None, None
        ch = self.rng.choice(cs)
        return ch, self.rng.choice(self.recs[ch])

    def g_add_attrs(self):
        ch, r = self._pick_rec()
        if r is None:
            return None
        return ["add_attrs", ["h", r[0]], self.extras(ch), "dict" if self.rng.random() < 0.4 else "pairs"]

    def g_set_time(self):
        cs = [(c, r) for c in self.containers() for r in self.recs[c] if r[1] == "activity"]
        if not cs:
            return None
        ch, r = self.rng.choice(cs)
        rng = self.rng

        def t():
            if rng.random() < 0.3:
                return None
            iso = rng.choice(pools.DATETIMES)
            return ["dts", iso] if rng.random() < 0.5 else ["dt", iso]

        return ["set_time", ["h", r[0]], t(), t()]

    def g_add_type(self):
        ch, r = self._pick_rec()
        if r is None:
            return None
        x = self.rng.random()
        pf = self.p.get("p_foreign_type", 0.0)
        if x < pf:
            # a type in a user namespace, possibly one the container has never seen
            return ["add_type", ["h", r[0]], self.name_spec(ch, {"qn": 3, "nsobj": 2})]
        if x < pf + self.p.get("p_value_type", 0.0):
            # any attribute value as a type (C05's quantifier: add_asserted_type with all attribute
            # values, incl. typed literals of natively supported datatypes)
            return ["add_type", ["h", r[0]], self.value_spec(ch)]
        return ["add_type", ["h", r[0]], ["qn", "prov", pools.PROV_URI, self.rng.choice(pools.PROV_TYPES)]]

    def g_copy(self):
        ch, r = self._pick_rec()
        if r is None:
            return None
        return ["copy", self.fresh("r"), ["h", r[0]]]

    def g_add_record(self):
        ch, r = self._pick_rec()
        if r is None:
            return None
        th = self.pick_container()
        rh = self.fresh("r")
        self.recs[th].append((rh, r[1], r[2]))
        return ["add_record", rh, th, ["h", r[0]]]

    def g_doc_from(self):
        ch = self.pick_container()
        h = self.fresh("D")
        self._add_derived(h)
        return ["doc_from", h, ch]

    def g_update(self):
        cs = self.containers() + self.derived
        if len(cs) < 2:
            return None
        a = self.rng.choice(self.containers())
        b = self.rng.choice(cs)
        return ["update", a, b]

    def g_add_bundle(self):
        rng = self.rng
        dh = rng.choice(self.docs)
        cands = self.free + self.docs + self.derived
        for d in self.docs:
            cands += self.bundles[d]
        bh = rng.choice(cands)
        ident = None
        if rng.random() < 0.6:
            if self.p.get("steer_f11b"):
                # steer around known finding F11b: name the bundle through a namespace
                # object of the document, so the printed identifier means the same in
                # the document's and in the bundle's scope
                ident = self.name_spec(dh, {"nsobj": 1})
                if ident[0] != "nsobj" or ident[1] != dh:
                    ident = None
            else:
                ident = self.name_spec(dh)
        if ident is None and self.p.get("steer_f11b") and bh not in self.free:
            return None
        if bh in self.free and self.parent.get(bh) is None:
            # attaching links the parent afterwards
            self.free.remove(bh)
            self.bundles[dh].append(bh)
            self.parent[bh] = dh
        return ["add_bundle", dh, bh, ident]

    def g_unified(self):
        ch = self.rng.choice(self.containers() + self.derived)
        h = self.fresh("U")
        self._add_derived(h, is_doc=(ch in self.docs or ch in self.derived_docs))
        return ["unified", h, ch]

    def g_flattened(self):
        dh = self.rng.choice(self.docs + self.derived_docs)
        h = self.fresh("L")
        self._add_derived(h)
        return ["flattened", h, dh]

    def json_opts(self):
        rng = self.rng
        o = {}
        if rng.random() < 0.5:
            o["indent"] = rng.choice([None, 0, 2, 4])
        if rng.random() < 0.4:
            o["sort_keys"] = rng.random() < 0.7
        if rng.random() < 0.4:
            o["ensure_ascii"] = rng.random() < 0.5
        return o

    def write_opts(self, fmt):
        if fmt == "json":
            return self.json_opts()
        if fmt == "xml":
            return {"force_types": self.rng.random() < 0.5}
        return {}

    def g_roundtrip(self):
        rng = self.rng
        dh = rng.choice(self.docs)
        if self.derived_docs and rng.random() < self.p.get("p_roundtrip_derived", 0.0):
            # a second generation: documents that were themselves read, unified, flattened ...
            dh = rng.choice(self.derived_docs)
        h = self.fresh("R")
        self._add_derived(h)
        fmt = self.p["fmt"]
        between = []
        if rng.random() < self.p.get("p_between", 0.0):
            if rng.random() < 0.7:
                between.append(self.g_clock_jump())
            if rng.random() < 0.5:
                between.append(["restart_lite"])
        return [
            "roundtrip", h, dh, fmt, self.write_opts(fmt),
            rng.choice(["str", "text", "bin"]),
            rng.choice(["content", "bytes", "text", "bin", "content", "bytes", "text", "bin", "reuse"]),
            between,
        ]

    def g_rebuild(self):
        """A content-preserving copy under other prefixes / record order (see rebuild.py)."""
        rng = self.rng
        dh = rng.choice(self.docs + self.derived_docs)
        h = self.fresh("P")
        self._add_derived(h)
        return ["rebuild", h, dh, {"perm": rng.choice([None, rng.randrange(10**6)]),
                                   "prefix": rng.choice(["alt", "alt", "orig"]), "dup": None,
                                   "via": rng.choice(["new_record", "records_ctor"]), "edit": None}]

    def g_eq(self):
        cs = self.docs + self.derived
        return ["eq", self.rng.choice(cs), self.rng.choice(cs)]

    def g_get_record(self):
        ch = self.rng.choice(self.containers() + self.derived)
        base = ch if ch in self.ids else self.docs[0]
        if self.ids.get(base) and self.rng.random() < 0.8:
            return ["get_record", ch, self.rng.choice(self.ids[base])]
        return ["get_record", ch, self.name_spec(base)]

    def g_get_records(self):
        ch = self.rng.choice(self.containers() + self.derived)
        return ["get_records", ch, self.rng.choice(["none", "element", "relation"] + pools.KIND_NAMES)]

    def g_export(self):
        rng = self.rng
        dh = rng.choice(self.docs + self.derived_docs)
        k = rng.choice(["json", "xml", "rdf", "provn", "provn_direct", "graph", "dot"])
        if k in ("json", "xml", "rdf", "provn"):
            return ["serialize", dh, k, self.write_opts(k)]
        if k == "provn_direct":
            return ["provn", dh]
        if k == "graph":
            return ["graph", dh]
        return ["dot", dh, {
            "show_nary": rng.random() < 0.5,
            "use_labels": rng.random() < 0.5,
            "show_element_attributes": rng.random() < 0.5,
            "show_relation_attributes": rng.random() < 0.5,
            "direction": rng.choice(["BT", "TB", "LR", "RL", "XX"]),
        }]

    def g_peek(self):
        ch, r = self._pick_rec()
        if r is None:
            return None
        which = self.rng.choice(["label", "value", "types", "attribute", "args", "formal", "extra",
                                 "repr", "str", "times", "hash"])
        spec = None
        if which == "attribute":
            spec = self.rng.choice([
                ["qn", "prov", pools.PROV_URI, self.rng.choice(pools.PROV_EXTRA_ATTRS + ["time", "activity", "entity"])],
                self.name_spec(ch, {"nsobj": 2, "pl": 1}),
            ])
            if spec[0] not in ("qn", "nsobj", "pl"):
                spec = ["qn", "prov", pools.PROV_URI, "label"]
        return ["peek", ["h", r[0]], which, spec]

    def g_get_record_absent(self):
        ch = self.rng.choice(self.containers())
        return ["get_record", ch, ["full", "http://nowhere.example/", "absent%d" % self.rng.randrange(6)]]

    def g_clock_jump(self):
        return ["clock_jump", self.rng.choice([1, 3600, 86400, 86400 * 17, 86400 * 365, -86400 * 400, 86400 * 31])]

    def g_restart_lite(self):
        return ["restart_lite"]
