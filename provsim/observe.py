"""Strict, URI-level, kind-aware observation of library objects.

Shares no code with the library beyond calling public accessors
(``get_type``, ``identifier``, ``attributes``, ``get_records``, ``bundles``,
``namespaces``, ``get_default_namespace``).  1, True and 1.0 are three different
things here; prefixes are invisible; a changed URI, type or value is a difference.
"""
import datetime

from . import boot  # noqa: F401
from prov.identifier import Identifier, QualifiedName
from prov.model import Literal


def vkey(v):
    """Tagged, hashable, totally ordered-by-repr key of one attribute value."""
    if isinstance(v, bool):
        return ("bool", v)
    if isinstance(v, int):
        return ("int", v)
    if isinstance(v, float):
        return ("float", repr(v))
    if isinstance(v, str):
        return ("str", v)
    if isinstance(v, datetime.datetime):
        off = v.utcoffset()
        return ("dt", v.isoformat(), None if off is None else off.total_seconds())
    if isinstance(v, QualifiedName):
        return ("qn", v.uri)
    if isinstance(v, Identifier):
        return ("uri", v.uri)
    if isinstance(v, Literal):
        dt = v.datatype
        return (
            "lit",
            v.value,
            None if dt is None else (dt.uri if isinstance(dt, Identifier) else "?" + repr(dt)),
            v.langtag,
        )
    return ("other", type(v).__name__, repr(v))


def _uri(x):
    if x is None:
        return None
    if isinstance(x, Identifier):
        return x.uri
    return "?" + type(x).__name__ + ":" + repr(x)


def rec_obs(r):
    """(type URI, identifier URI | None, sorted multiset of (attr URI, value key))."""
    attrs = sorted(((_uri(a), vkey(v)) for a, v in r.attributes), key=repr)
    return (_uri(r.get_type()), _uri(r.identifier), tuple(attrs))


def cont_obs(c):
    """Records of one container, in container order."""
    return tuple(rec_obs(r) for r in c.get_records())


def doc_obs(d):
    """Whole-document snapshot: own records + bundles keyed by identifier URI (in order)."""
    out = {"records": cont_obs(d), "bundles": []}
    if d.is_document():
        for b in d.bundles:
            out["bundles"].append((_uri(b.identifier), cont_obs(b)))
    out["bundles"] = tuple(out["bundles"])
    return (out["records"], out["bundles"])


def ns_obs(c):
    """Registered (prefix, uri) pairs and the default-namespace URI of one container."""
    regs = tuple(sorted((ns.prefix, ns.uri) for ns in c.namespaces))
    d = c.get_default_namespace()
    return (regs, None if d is None else d.uri)


def full_obs(d):
    """Content with order + namespaces of a document and all its bundles."""
    parts = [("", cont_obs(d), ns_obs(d))]
    if d.is_document():
        for b in d.bundles:
            parts.append((_uri(b.identifier), cont_obs(b), ns_obs(b)))
    return tuple(parts)


def multiset(seq):
    """Order-insensitive form of a record tuple (sorted by repr)."""
    return tuple(sorted(seq, key=repr))


def doc_multiset(d):
    """Content of a document as multisets per container; bundles keyed by URI."""
    recs, bundles = doc_obs(d)
    return (multiset(recs), tuple(sorted(((u, multiset(rs)) for u, rs in bundles), key=repr)))


def doc_sets(d):
    """Content of a document as *sets* per container (for RDF / equality)."""
    recs, bundles = doc_obs(d)
    return (frozenset(recs), tuple(sorted(((u, frozenset(rs)) for u, rs in bundles), key=repr)))


def diff_multisets(a, b, limit=4):
    """Human-readable difference between two record multisets (tuples)."""
    from collections import Counter

    ca, cb = Counter(a), Counter(b)
    only_a = list((ca - cb).elements())[:limit]
    only_b = list((cb - ca).elements())[:limit]
    return {"only_left": [repr(x) for x in only_a], "only_right": [repr(x) for x in only_b]}
