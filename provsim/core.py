"""Run loop: one seed -> one exactly repeatable history, judged by an oracle."""
import hashlib
import json
import os
import random
import time

from . import boot  # noqa: F401
from . import seams
from .ops import Gen
from .world import World


class Violation(Exception):
    """A property violation found by an oracle.

    inv    which invariant of the property
    cause  short structured cause key (stable under minimisation)
    detail free-form JSON-able description
    facts  structured facts used to attribute the violation to a known finding
    """

    def __init__(self, prop, inv, cause, detail=None, facts=None):
        Exception.__init__(self, "%s/%s/%s" % (prop, inv, cause))
        self.prop = prop
        self.inv = inv
        self.cause = cause
        self.detail = detail
        self.facts = facts or {}
        self.step = None

    @property
    def signature(self):
        return [self.prop, self.inv, self.cause]


class HarnessError(Exception):
    pass


class Oracle(object):
    """Base class: a property's swarm configuration, generator profile and checks."""

    prop = None

    def __init__(self, cfg=None):
        self.cfg = cfg
        self.counters = {}
        self.probes = {}

    # -- configuration ------------------------------------------------------
    def swarm(self, rng):
        """Draw this run's configuration (JSON-able).  Called once, before any op."""
        return {"profile": {}, "steps": 20}

    def make_gen(self, rng):
        from .ops import DEFAULT_PROFILE, merged

        return Gen(rng, merged(DEFAULT_PROFILE, **self.cfg.get("profile", {})))

    def next_op(self, gen, world, i):
        return gen.next_op(world)

    # -- hooks --------------------------------------------------------------
    def before(self, w, i, op):
        pass

    def after(self, w, i, op, out):
        pass

    def final(self, w):
        pass

    # -- bookkeeping --------------------------------------------------------
    def count(self, key, n=1):
        self.counters[key] = self.counters.get(key, 0) + n

    def probe(self, key, n=1):
        self.probes[key] = self.probes.get(key, 0) + n

    def nontrivial(self, w):
        """Did this run exercise the property's focus on non-empty state?"""
        return True


class RunResult(object):
    def __init__(self):
        self.seed = None
        self.cfg = None
        self.ops = []
        self.violation = None
        self.digest = None
        self.sched_digest = None
        self.counters = {}
        self.probes = {}
        self.opcounts = {}
        self.outcomes = {}
        self.nontrivial = False
        self.outcome_key = ""
        self.state_digest = None
        self.clock_span = 0.0
        self.wall = 0.0


def _sched_digest(ops):
    return hashlib.sha256(json.dumps(ops, sort_keys=True).encode()).hexdigest()


def execute(oracle, ops_or_gen, seed, nsteps=None, rng=None):
    """Drive one world.  ops_or_gen is a list of ops (replay) or a Gen (simulate)."""
    t0 = time.time()
    seams.install(seed)
    w = World(oracle.cfg)
    res = RunResult()
    res.seed = seed
    res.cfg = oracle.cfg
    replaying = isinstance(ops_or_gen, list)
    n = len(ops_or_gen) if replaying else nsteps
    try:
        try:
            for i in range(n):
                if replaying:
                    op = ops_or_gen[i]
                else:
                    op = oracle.next_op(ops_or_gen, w, i)
                    if op is None:
                        break
                res.ops.append(op)
                oracle.before(w, i, op)
                out = w.execute(op)
                res.opcounts[op[0]] = res.opcounts.get(op[0], 0) + 1
                res.outcomes[out.status] = res.outcomes.get(out.status, 0) + 1
                try:
                    oracle.after(w, i, op, out)
                except Violation as v:
                    v.step = i
                    raise
            oracle.final(w)
        except Violation as v:
            if v.step is None:
                v.step = len(res.ops) - 1
            res.violation = v
        res.digest = w.digest()
        res.sched_digest = _sched_digest(res.ops)
        res.counters = dict(oracle.counters)
        res.probes = dict(oracle.probes)
        res.outcome_key = getattr(oracle, "outcome_key", "")
        res.nontrivial = bool(oracle.nontrivial(w))
        res.state_digest = hashlib.sha1(
            (res.digest + json.dumps(sorted(res.opcounts.items()))).encode()
        ).hexdigest()
        res.clock_span = seams.CLOCK.span
    finally:
        seams.uninstall()
    res.wall = time.time() - t0
    return res


def simulate(oracle_cls, seed):
    rng = random.Random(seed)
    proto = oracle_cls(None)
    cfg = proto.swarm(rng)
    if os.environ.get("PROVSIM_TIER") == "thorough" and "steps" in cfg:
        # deeper bounds in the thorough tier: a third of the histories are 2-3 times longer
        k = rng.choice([1, 1, 1, 1, 2, 3])
        if k > 1:
            extra = cfg["steps"] * (k - 1)
            cfg["steps"] += extra
            if "total_steps" in cfg:
                cfg["total_steps"] += extra
    oracle = oracle_cls(cfg)
    gen = oracle.make_gen(rng)
    return execute(oracle, gen, seed, nsteps=cfg.get("total_steps", cfg.get("steps", 20)), rng=rng)


def replay(oracle_cls, cfg, ops, seed):
    oracle = oracle_cls(cfg)
    return execute(oracle, list(ops), seed)


# ----------------------------------------------------------------- minimise
def minimise(oracle_cls, cfg, ops, seed, signature, budget_s=45.0):
    """Delta debugging over the operation list, then over record contents.

    A candidate is kept only if the *same violation signature* recurs.
    """
    t_end = time.time() + budget_s
    tests = [0]

    def fails(cand):
        tests[0] += 1
        try:
            r = replay(oracle_cls, cfg, cand, seed)
        except Exception:
            return False
        return r.violation is not None and r.violation.signature == signature

    cur = list(ops)
    # truncate after the violating step first
    r = replay(oracle_cls, cfg, cur, seed)
    if r.violation is None or r.violation.signature != signature:
        return cur, tests[0], False
    cur = cur[: r.violation.step + 1]
    # ddmin
    n = 2
    while len(cur) >= 2 and time.time() < t_end:
        chunk = max(1, len(cur) // n)
        reduced = False
        i = 0
        while i < len(cur) and time.time() < t_end:
            cand = cur[:i] + cur[i + chunk:]
            if cand and fails(cand):
                cur = cand
                n = max(n - 1, 2)
                reduced = True
            else:
                i += chunk
        if not reduced:
            if chunk == 1:
                break
            n = min(len(cur), n * 2)
    # shrink record contents: drop extras, drop formals
    changed = True
    while changed and time.time() < t_end:
        changed = False
        for idx, op in enumerate(cur):
            if time.time() >= t_end:
                break
            if op[0] == "rec":
                extra = op[6]
                j = 0
                while j < len(extra):
                    cand_op = list(op)
                    cand_op[6] = extra[:j] + extra[j + 1:]
                    cand = cur[:idx] + [cand_op] + cur[idx + 1:]
                    if fails(cand):
                        cur = cand
                        op = cand_op
                        extra = op[6]
                        changed = True
                    else:
                        j += 1
                for f in list(op[5]):
                    cand_op = list(op)
                    cand_op[5] = {k: v for k, v in op[5].items() if k != f}
                    cand = cur[:idx] + [cand_op] + cur[idx + 1:]
                    if fails(cand):
                        cur = cand
                        op = cand_op
                        changed = True
                if op[7] != "new_record":
                    cand_op = list(op)
                    cand_op[7] = "new_record"
                    cand = cur[:idx] + [cand_op] + cur[idx + 1:]
                    if fails(cand):
                        cur = cand
                        op = cand_op
                        changed = True
            elif op[0] == "add_attrs":
                attrs = op[2]
                j = 0
                while j < len(attrs) and len(attrs) > 1:
                    cand_op = list(op)
                    cand_op[2] = attrs[:j] + attrs[j + 1:]
                    cand = cur[:idx] + [cand_op] + cur[idx + 1:]
                    if fails(cand):
                        cur = cand
                        op = cand_op
                        attrs = op[2]
                        changed = True
                    else:
                        j += 1
    return cur, tests[0], True
