"""Simulated I/O: stream stubs obeying the io ABCs, and a fault-injecting interposer
over the Python-level file API working on a *real* private directory.

Nothing in /repo is changed: builtins.open / io.open, os.fdopen, os.open, os.rename,
os.replace, os.unlink, os.remove are module attributes replaced for the duration of
one library call.  File objects opened for writing are wrapped in a forwarding proxy
whose write/flush/close are *instants*: the fault plan can fail them, tear them (k of
n bytes reach the file, then ENOSPC) or crash there.  After a crash every interposed
call refuses to touch the directory, so clean-up code cannot repair what a killed
process would have left behind.
"""
import builtins
import errno
import io
import os
import shutil
import tempfile


class SimCrash(BaseException):
    """The simulated process was killed at this instant."""


# --------------------------------------------------------------------- streams
class SimTextStream(io.TextIOBase):
    def __init__(self, data="", seekable=True, chunk=None, fail_write_at=None, fail_read_at=None):
        self._buf = data
        self._pos = 0
        self._seekable = seekable
        self._chunk = chunk
        self.written = []
        self._writes = 0
        self._reads = 0
        self._fail_write_at = fail_write_at
        self._fail_read_at = fail_read_at

    encoding_name = None

    @property
    def encoding(self):
        return self.encoding_name

    def readable(self):
        return True

    def writable(self):
        return True

    def seekable(self):
        return self._seekable

    def read(self, n=-1):
        self._reads += 1
        if self._fail_read_at is not None and self._reads > self._fail_read_at:
            raise OSError(errno.EIO, "simulated read error")
        if n is None or n < 0:
            n = len(self._buf) - self._pos
        if self._chunk is not None and n > self._chunk and n != len(self._buf) - self._pos:
            n = self._chunk
        out = self._buf[self._pos:self._pos + n]
        self._pos += len(out)
        return out

    def readline(self, size=-1):
        i = self._buf.find("\n", self._pos)
        end = len(self._buf) if i < 0 else i + 1
        out = self._buf[self._pos:end]
        self._pos = end
        return out

    def write(self, s):
        if not isinstance(s, str):
            raise TypeError("text stream needs str, got %s" % type(s).__name__)
        self._writes += 1
        if self._fail_write_at is not None and self._writes > self._fail_write_at:
            raise OSError(errno.ENOSPC, "simulated: no space left on device")
        self.written.append(s)
        return len(s)

    def seek(self, pos, whence=0):
        if not self._seekable:
            raise io.UnsupportedOperation("not seekable")
        if whence == 0:
            self._pos = pos
        elif whence == 1:
            self._pos += pos
        else:
            self._pos = len(self._buf) + pos
        return self._pos

    def tell(self):
        if not self._seekable:
            raise io.UnsupportedOperation("not seekable")
        return self._pos

    def value(self):
        return "".join(self.written)


class SimBinaryStream(io.BufferedIOBase):
    def __init__(self, data=b"", seekable=True, chunk=None, fail_write_at=None, fail_read_at=None):
        self._buf = data
        self._pos = 0
        self._seekable = seekable
        self._chunk = chunk
        self.written = []
        self._writes = 0
        self._reads = 0
        self._fail_write_at = fail_write_at
        self._fail_read_at = fail_read_at

    def readable(self):
        return True

    def writable(self):
        return True

    def seekable(self):
        return self._seekable

    def read(self, n=-1):
        self._reads += 1
        if self._fail_read_at is not None and self._reads > self._fail_read_at:
            raise OSError(errno.EIO, "simulated read error")
        if n is None or n < 0:
            n = len(self._buf) - self._pos
        elif self._chunk is not None and n > self._chunk:
            n = self._chunk  # short read: fewer bytes than asked for, never zero before EOF
        out = self._buf[self._pos:self._pos + n]
        self._pos += len(out)
        return out

    def read1(self, n=-1):
        return self.read(n)

    def readinto(self, b):
        data = self.read(len(b))
        b[:len(data)] = data
        return len(data)

    def write(self, b):
        if isinstance(b, str):
            raise TypeError("binary stream needs bytes, got str")
        self._writes += 1
        if self._fail_write_at is not None and self._writes > self._fail_write_at:
            raise OSError(errno.ENOSPC, "simulated: no space left on device")
        self.written.append(bytes(b))
        return len(b)

    def seek(self, pos, whence=0):
        if not self._seekable:
            raise io.UnsupportedOperation("not seekable")
        if whence == 0:
            self._pos = pos
        elif whence == 1:
            self._pos += pos
        else:
            self._pos = len(self._buf) + pos
        return self._pos

    def tell(self):
        if not self._seekable:
            raise io.UnsupportedOperation("not seekable")
        return self._pos

    def value(self):
        return b"".join(self.written)


class SimRawStream(io.RawIOBase):
    """Raw binary source with short reads (readinto returns at most `chunk` bytes)."""

    def __init__(self, data=b"", chunk=7, seekable=False):
        self._buf = data
        self._pos = 0
        self._chunk = chunk
        self._seekable = seekable

    def readable(self):
        return True

    def seekable(self):
        return self._seekable

    def readinto(self, b):
        n = min(len(b), self._chunk, len(self._buf) - self._pos)
        b[:n] = self._buf[self._pos:self._pos + n]
        self._pos += n
        return n

    def seek(self, pos, whence=0):
        if not self._seekable:
            raise io.UnsupportedOperation("not seekable")
        self._pos = pos if whence == 0 else (self._pos + pos if whence == 1 else len(self._buf) + pos)
        return self._pos

    def tell(self):
        return self._pos


# ------------------------------------------------------------- file-system layer
_real = {
    "open": builtins.open,
    "io_open": io.open,
    "fdopen": os.fdopen,
    "os_open": os.open,
    "rename": os.rename,
    "replace": os.replace,
    "unlink": os.unlink,
    "remove": os.remove,
    "TextIOWrapper": io.TextIOWrapper,
    "sendfile": getattr(shutil, "_USE_CP_SENDFILE", None),
    "copyrange": getattr(shutil, "_USE_CP_COPY_FILE_RANGE", None),
}


def real_open(*a, **k):
    return _real["open"](*a, **k)


_platform_default = [None]  # emulated platform default text encoding while an FsSim is installed


def _make_text_wrapper():
    """io.TextIOWrapper whose *omitted* encoding (None, or "locale") is the emulated platform
    default: a text layer put over a binary stream without naming an encoding decodes with
    the locale's encoding, exactly like open() without encoding=.  One permanent class that
    reads the current default, so that a module doing `from io import TextIOWrapper` while
    the simulator is installed does not freeze one run's encoding."""
    base = _real["TextIOWrapper"]

    class _MetaTW(type(base)):
        def __instancecheck__(cls, obj):
            if cls is TextIOWrapper:  # isinstance(x, io.TextIOWrapper) keeps its meaning
                return isinstance(obj, base)
            return type.__instancecheck__(cls, obj)

        def __subclasscheck__(cls, sub):
            if cls is TextIOWrapper:
                return issubclass(sub, base)
            return type.__subclasscheck__(cls, sub)

    class TextIOWrapper(base, metaclass=_MetaTW):
        def __init__(self, buffer, encoding=None, *a, **k):
            if encoding in (None, "locale") and _platform_default[0] is not None:
                encoding = _platform_default[0]
            base.__init__(self, buffer, encoding, *a, **k)

    TextIOWrapper.__module__ = "io"
    TextIOWrapper.__qualname__ = "TextIOWrapper"
    return TextIOWrapper


_SimTextIOWrapper = _make_text_wrapper()


class FileProxy(io.BufferedIOBase):
    """Forwarding proxy over an unbuffered real file that models a *buffered* writer:
    data handed to write() sits in a buffer of `bufsize` bytes and reaches the file in
    low-level writes, when the buffer overflows, on flush() and on close().  Every
    low-level write, flush and close is an instant; a failed low-level write loses the
    data it carried (error) or half of it (torn).  bufsize 0 = unbuffered."""

    def __init__(self, sim, realf, role, bufsize=0, raw=False):
        io.BufferedIOBase.__init__(self)
        self._sim = sim
        self._real = realf
        self._role = role
        self._closed = False
        self._buf = b""
        # raw=True: the code under test asked for an *unbuffered* binary file (buffering=0),
        # i.e. a FileIO whose write() may legally accept only part of the data and say so
        # in its return value.  "torn" is then a short write (half the data, count
        # returned, no exception - what a nearly full device does); the device is full
        # afterwards, so every later write fails with ENOSPC.
        self._raw = raw
        self._full = False
        self._bufsize = 0 if raw else bufsize
        sim.files.append(realf)

    def _lowlevel(self, data):
        act = self._sim.instant(self._role + "-write", len(data))
        if self._raw and self._full:
            raise OSError(errno.ENOSPC, "simulated: no space left on device")
        if act == "error":
            raise OSError(errno.ENOSPC, "simulated: no space left on device")
        if act == "torn" and self._raw:
            k = max(0, len(data) // 2)
            if k:
                self._real.write(data[:k])
            self._full = True
            self._sim.short_writes = getattr(self._sim, "short_writes", 0) + 1
            return k
        if act == "torn":
            k = max(0, len(data) // 2)
            if k:
                self._real.write(data[:k])
            raise OSError(errno.ENOSPC, "simulated: no space left on device (torn write)")
        self._real.write(data)
        return len(data)

    def write(self, data):
        if self._closed:
            raise ValueError("write to closed file")
        if isinstance(data, str):
            raise TypeError("a bytes-like object is required, not 'str'")
        data = bytes(data)
        if self._bufsize <= 0:
            n = self._lowlevel(data)
            return n if self._raw else len(data)
        self._buf += data
        if len(self._buf) > self._bufsize:
            out, self._buf = self._buf, b""
            self._lowlevel(out)
        return len(data)

    def _drain(self):
        if self._buf:
            out, self._buf = self._buf, b""
            self._lowlevel(out)

    def flush(self):
        if self._closed:
            return
        self._drain()
        act = self._sim.instant(self._role + "-flush")
        if act in ("error", "torn"):
            raise OSError(errno.EIO, "simulated I/O error on flush")
        self._real.flush()

    def close(self):
        if self._closed:
            return
        if self._sim.exited:
            # the simulated call is over (garbage collection of a proxy): nothing to simulate
            self._closed = True
            try:
                self._real.close()
            except Exception:
                pass
            return
        try:
            self._drain()
            act = self._sim.instant(self._role + "-close")
        finally:
            # like io.BufferedWriter: the descriptor is closed even when the final flush fails
            if not self._sim.crashed:
                self._closed = True
                self._real.close()
        if act in ("error", "torn"):
            raise OSError(errno.EIO, "simulated I/O error on close")

    @property
    def closed(self):
        return self._closed

    def __enter__(self):
        return self

    def __exit__(self, *exc):
        self.close()
        return False

    def fileno(self):
        return self._real.fileno()

    def writable(self):
        return True

    def readable(self):
        return False

    def seekable(self):
        return False

    def __del__(self):
        try:
            if not self._closed:
                self._closed = True
                self._real.close()
        except Exception:
            pass

    def __getattr__(self, name):
        if name.startswith("_"):
            raise AttributeError(name)
        return getattr(self._real, name)


class FsSim(object):
    """Context manager installing the interposers.

    plan    {instant index: "error" | "torn" | "crash"}
    exdev   os.rename/os.replace from the temp directory to anywhere else fails with EXDEV
    encoding  platform default text encoding supplied to text-mode opens that name none
    observe callable(label) invoked at every instant *before* it executes
    """

    def __init__(self, tmpdir, plan=None, exdev=False, encoding="utf-8", observe=None, bufsize=0):
        self.tmpdir = os.path.realpath(tmpdir)
        self.plan = dict(plan or {})
        self.exdev = exdev
        self.encoding = encoding
        self.observe = observe
        self.bufsize = bufsize
        self.trace = []
        self.fired = []
        self.crashed = False
        self.exited = False
        self.files = []
        self._saved_tempdir = None

    # ---- instants
    def instant(self, label, nbytes=None):
        if self.crashed:
            raise SimCrash("dead process")
        idx = len(self.trace)
        self.trace.append(label if nbytes is None else "%s[%d]" % (label, nbytes))
        if self.observe is not None:
            self.observe(label)
        act = self.plan.get(idx)
        if act is not None:
            self.fired.append((idx, label, act))
        if act == "crash":
            self.crashed = True
            raise SimCrash("killed at instant %d (%s)" % (idx, label))
        return act

    def _in_tmp(self, path):
        try:
            p = os.path.realpath(os.fspath(path))
        except TypeError:
            return False
        return p == self.tmpdir or p.startswith(self.tmpdir + os.sep)

    # ---- interposers
    def _open(self, file, mode="r", buffering=-1, encoding=None, errors=None, newline=None,
              closefd=True, opener=None):
        if self.crashed:
            raise SimCrash("dead process")
        if isinstance(file, int) or opener is not None:
            # descriptors and opener-based opens (tempfile's own machinery) are not the
            # library's writes to a named file
            return _real["open"](file, mode, buffering, encoding, errors, newline, closefd, opener)
        writing = any(c in mode for c in "wax+")
        if not writing:
            if "b" not in mode and encoding in (None, "locale"):
                encoding = self.encoding  # emulated platform default
            return _real["open"](file, mode, buffering, encoding, errors, newline, closefd, opener)
        role = "copy" if self._copying else "open"
        act = self.instant(role + "-open")
        if act in ("error", "torn"):
            raise OSError(errno.ENOSPC, "simulated: cannot create file")
        if "b" in mode:
            realf = _real["open"](file, mode, 0, None, None, None, closefd, opener)
            if buffering == 0:
                return _ProxyRaw(FileProxy(self, realf, role, 0, raw=True))  # a FileIO is an io.RawIOBase
            return FileProxy(self, realf, role, self.bufsize)
        if encoding in (None, "locale"):
            encoding = self.encoding
        realf = _real["open"](file, mode.replace("t", "") + "b", 0)
        return _real["TextIOWrapper"](_ProxyRaw(FileProxy(self, realf, role, self.bufsize)), encoding=encoding,
                                errors=errors, newline=newline, write_through=True)

    def _fdopen(self, fd, mode="r", buffering=-1, encoding=None, *args, **kwargs):
        if self.crashed:
            raise SimCrash("dead process")
        if not any(c in mode for c in "wax+"):
            return _real["fdopen"](fd, mode, buffering, encoding, *args, **kwargs)
        act = self.instant("tmp-fdopen")
        if act in ("error", "torn"):
            os.close(fd)
            raise OSError(errno.EMFILE, "simulated: too many open files")
        if "b" in mode:
            if buffering == 0:
                return _ProxyRaw(FileProxy(self, _real["fdopen"](fd, mode, 0), "tmp", 0, raw=True))
            return FileProxy(self, _real["fdopen"](fd, mode, 0), "tmp", self.bufsize)
        realf = _real["fdopen"](fd, mode.replace("t", "") + "b", 0)
        return _real["TextIOWrapper"](_ProxyRaw(FileProxy(self, realf, "tmp", self.bufsize)),
                                encoding=self.encoding if encoding in (None, "locale") else encoding, write_through=True)

    def _os_open(self, path, flags, mode=0o777, *, dir_fd=None):
        if self.crashed:
            raise SimCrash("dead process")
        if flags & os.O_CREAT and flags & os.O_EXCL:
            act = self.instant("mkstemp")
            if act in ("error", "torn"):
                raise OSError(errno.ENOSPC, "simulated: no space left on device")
        return _real["os_open"](path, flags, mode, dir_fd=dir_fd)

    def _rename(self, src, dst, **kw):
        return self._mv("rename", src, dst, kw)

    def _replace(self, src, dst, **kw):
        return self._mv("replace", src, dst, kw)

    def _mv(self, which, src, dst, kw):
        if self.crashed:
            raise SimCrash("dead process")
        if self.exdev and self._in_tmp(src) and not self._in_tmp(dst):
            self.trace.append("%s->EXDEV" % which)
            self._copying = True
            raise OSError(errno.EXDEV, "Invalid cross-device link")
        act = self.instant(which)
        if act in ("error", "torn"):
            raise OSError(errno.EACCES, "simulated: permission denied")
        return _real[which](src, dst, **kw)

    def _unlink(self, path, **kw):
        if self.crashed:
            raise SimCrash("dead process")
        act = self.instant("unlink")
        if act in ("error", "torn"):
            raise OSError(errno.EACCES, "simulated: permission denied")
        return _real["unlink"](path, **kw)

    # ---- install / remove
    def __enter__(self):
        self._copying = False
        builtins.open = self._open
        io.open = self._open
        os.fdopen = self._fdopen
        os.open = self._os_open
        os.rename = self._rename
        os.replace = self._replace
        os.unlink = self._unlink
        os.remove = self._unlink
        _platform_default[0] = self.encoding
        io.TextIOWrapper = _SimTextIOWrapper
        if _real["sendfile"] is not None:
            shutil._USE_CP_SENDFILE = False
        if _real["copyrange"] is not None:
            shutil._USE_CP_COPY_FILE_RANGE = False
        self._saved_tempdir = tempfile.tempdir
        tempfile.tempdir = self.tmpdir
        return self

    def __exit__(self, *exc):
        builtins.open = _real["open"]
        io.open = _real["io_open"]
        os.fdopen = _real["fdopen"]
        os.open = _real["os_open"]
        os.rename = _real["rename"]
        os.replace = _real["replace"]
        os.unlink = _real["unlink"]
        os.remove = _real["remove"]
        io.TextIOWrapper = _real["TextIOWrapper"]
        _platform_default[0] = None
        if _real["sendfile"] is not None:
            shutil._USE_CP_SENDFILE = _real["sendfile"]
        if _real["copyrange"] is not None:
            shutil._USE_CP_COPY_FILE_RANGE = _real["copyrange"]
        tempfile.tempdir = self._saved_tempdir
        self.exited = True
        for f in self.files:
            try:
                f.close()
            except Exception:
                pass
        return False


class _ProxyRaw(io.RawIOBase):
    """A FileProxy seen as a raw stream: what io.TextIOWrapper sits on, and what the code
    under test gets when it opens a binary file with buffering=0."""

    def __init__(self, proxy):
        self._p = proxy

    def writable(self):
        return True

    def fileno(self):
        return self._p.fileno()

    def write(self, b):
        return self._p.write(bytes(b))

    def flush(self):
        if not self.closed:
            self._p.flush()

    def close(self):
        if not self.closed:
            try:
                self._p.close()
            finally:
                io.RawIOBase.close(self)
